"""C16 — world construction keeps geometry/mass bookkeeping consistent and terminates (formula / structure level)."""
from __future__ import annotations
import ast
from fractions import Fraction as F
from ..core import expr as X
from ..core.interp import Interp, Obj, Vec, FuncRef, Opaque, RaiseSignal, concrete
from ..core.lints import loop_progress, mutation_effects, prune_flags
from ..core.regions import sign_of, POS
from ..core.report import AnalysisError
from ..frontend.pyfront import Repo
from .common import need_func, need_class, methods, make_eq

LEVEL = 'other'
TECHNIQUE = 'loop-progress lint on every while loop; alias/effect analysis of the builder functions (inputs never mutated); abstract interpretation of set_geometry / find_geometry_from_config / scale_from_world on symbolic objects with polynomial identity testing of the geometry and mass identities; name-derivation chains interpreted concretely'
LEVEL_TEXT = ('Termination is decided by a progress rule on every loop (an exit test must read something the loop changes); non-mutation by an effect analysis over aliases of the parameters; '
              'the bookkeeping identities (volumes telescope, radii increase, gravity, enclosed mass, contiguity in every derived-geometry path, scaling) are exact identities of the extracted formulas '
              'for symbolic radii, thicknesses, masses and slice counts 2..5.')
LEVEL_NOTE = 'Trusted: front-end, interpreter, real algebra (rounding of sums not decided). The shipped world configuration files are checked as data (R16.6), not run through the builder.'
EXPLANATION = 'R16.1 loop progress; R16.2 inputs not mutated; R16.3 geometry/mass identities (also when the slice arrays were pre-filled by the layers, build_slices=False); R16.4 radius scaling and distinct names along derivation chains; R16.5 mass bookkeeping survives a derivation (parent reinit -> scale/build_from_world -> derived reinit); R16.7 LayeredWorld builds its layers in configuration order for every way of placing them (radius, thickness, mixed); R16.6 the shipped non-BurnMan layered configurations (directory and zip copies) state positive, strictly increasing radii that end at the world radius.'


TECHNIQUE += '; build_from_world from parents whose layers are placed by thickness / by the world radius, the derived configuration run through find_geometry_from_config layer by layer'

EXPLANATION += ' R16.8 the world-level slice arrays are the layers\' arrays laid end to end in stacking order for unequal slice counts.'

def run(chk):
    repo = Repo(chk.repo)
    # ------------------------------------------------------------------ R16.1
    nloops = 0
    for dotted in repo.all_modules():
        mod = repo.module(dotted)
        if mod is None or mod.is_pyx: continue
        for n in ast.walk(mod.tree):
            if isinstance(n, ast.While):
                nloops += 1
                ok, detail = loop_progress(n)
                fn = enclosing_func(mod.tree, n)
                chk.ob('R16.1', f'{mod.rel()}::{fn}: while-loop makes progress towards its exit', ok, detail, mod.where(n), key=f'R16.1|{mod.rel()}::{fn}', method='loop-progress lint')
    chk.note_analysed('loops', nloops)

    # ------------------------------------------------------------------ R16.2 effects
    mw = repo.by_path('TidalPy/structures/world_builder/world_builder.py')
    mcfg = repo.by_path('TidalPy/structures/world_builder/config_handler.py')
    mdu = repo.by_path('TidalPy/utilities/dictionary_utils.py')

    def kwval(call, name, pos=None, default=None):
        for k in call.keywords:
            if k.arg == name:
                try: return ast.literal_eval(k.value)
                except Exception: return '?'
        if pos is not None and len(call.args) > pos:
            try: return ast.literal_eval(call.args[pos])
            except Exception: return '?'
        return default

    def fresh_calls(c):
        fn = c.func.id if isinstance(c.func, ast.Name) else (c.func.attr if isinstance(c.func, ast.Attribute) else '')
        if fn == 'clean_world_config': return kwval(c, 'make_copy', 1, True) is True
        if fn == 'nested_merge': return kwval(c, 'make_copies', 2, True) is True
        if fn == 'load': return True          # toml.load
        return False

    def mutating(c):
        fn = c.func.id if isinstance(c.func, ast.Name) else (c.func.attr if isinstance(c.func, ast.Attribute) else '')
        if fn == 'clean_world_config' and kwval(c, 'make_copy', 1, True) is not True: return c.args[:1]
        if fn == 'nested_merge' and kwval(c, 'make_copies', 2, True) is not True: return c.args[:1]
        if fn == 'nested_place' and kwval(c, 'make_copy', 3, False) is not True: return c.args[1:2]
        return []
    targets = [(mw, 'build_world', {}), (mw, 'build_from_world', {}), (mw, 'scale_from_world', {}), (mcfg, 'clean_world_config', {'make_copy': True}),
               (mdu, 'nested_merge', {'make_copies': True})]
    for mod, name, flags in targets:
        f = need_func(mod, name)
        f2 = prune_flags(f, flags) if flags else f
        eff, tainted = mutation_effects(f2, fresh_calls, mutating)
        chk.ob('R16.2', f'{name}' + (f' ({", ".join(f"{k}={v}" for k, v in flags.items())})' if flags else '') + ': no store/del/mutating call reaches an object aliased to a parameter', not eff,
               '; '.join(f'line {ln}: {d}' for ln, d in eff[:3]), mod.where(f), key=f'R16.2|{name}', method='alias/effect analysis')
    # call sites of the copy-or-alias helpers inside the builders pass the copying flag
    for mod, name, _ in targets[:3]:
        f = need_func(mod, name)
        for c in ast.walk(f):
            if isinstance(c, ast.Call) and isinstance(c.func, ast.Name) and c.func.id in ('clean_world_config', 'nested_merge'):
                ok = fresh_calls(c)
                chk.ob('R16.2', f'{name}: call {ast.unparse(c)[:60]} requests a copy', ok, 'called without make_copy/make_copies=True', mod.where(c), method='AST call-site binding')

    # ------------------------------------------------------------------ R16.3 geometry identities
    mp = repo.by_path('TidalPy/structures/physical.py')
    cls = need_class(mp, 'PhysicalObjSpherical')
    ms = methods(cls)
    if 'set_geometry' not in ms:
        raise AnalysisError('PhysicalObjSpherical.set_geometry vanished')

    def glob_hook(itp, mod, nm):
        if nm == 'log': return Opaque('log')
        if nm == 'extensive_checks': return False
        return None
    def generic_branch(itp, st, v, fr):
        if isinstance(v, X.Node) and v.op == 'cmp' and v.val == '==': return False       # generic region: thickness != radius
        return None
    it = Interp(repo, hooks={'global': glob_hook, 'branch': generic_branch}, max_depth=12)
    R = X.atom('R', 'pos'); M = X.atom('M', 'pos'); Th = X.atom('thickness', 'pos'); Mb = X.atom('M_below', 'pos')
    G = X.atom('const_G', 'pos'); pi = X.atom('pi', 'pos')
    d = X.Decider(seed=chk.seed, k=3, positive=[R - Th])
    eq = make_eq(chk, d)
    where = mp.where(ms['set_geometry'])
    for nsl in ((3, 5) if chk.tier == 'quick' else (2, 3, 4, 5, 8)):
        o = Obj(cls=('class', mp, cls), name='phys', attrs={'_num_slices': nsl, '_moi': None})
        o.attrs['num_slices'] = nsl; o.attrs['moi'] = None
        it.call(mp, ms['set_geometry'], [R, M, Th], {'mass_below': Mb}, self_obj=o)
        A = o.attrs
        Rin = R - Th
        vol = X.const(F(4, 3)) * pi * (R ** 3 - Rin ** 3)
        lab = f'num_slices={nsl}'
        eq('R16.3', f'{lab}: inner radius == radius - thickness', A['_radius_inner'], Rin, where)
        eq('R16.3', f'{lab}: volume == 4 pi/3 (R^3 - R_in^3)', A['_volume'], vol, where)
        eq('R16.3', f'{lab}: surface gravity == G (M + M_below) / R^2', A['_gravity_outer'], G * (M + Mb) / R ** 2, where)
        eq('R16.3', f'{lab}: bulk density == M / volume', A['_density_bulk'], M / vol, where)
        radii = A['_radii']; vs = A['_volume_slices']; msl = A['_mass_slices']; mbs = A['_mass_below_slices']; gs = A['_gravity_slices']
        if not (isinstance(radii, Vec) and len(radii) == nsl):
            chk.ob('R16.3', f'{lab}: radii array has num_slices entries', False, f'{type(radii).__name__}', where); continue
        tot = X.ZERO
        for v in vs: tot = tot + v
        eq('R16.3', f'{lab}: slice volumes sum to the object volume (telescoping)', tot, vol, where)
        eq('R16.3', f'{lab}: top slice radius == object radius', radii[-1], R, where)
        inc = all(d.equal(radii[k + 1] - radii[k], Th / nsl) for k in range(nsl - 1)) and d.equal(radii[0] - Rin, Th / nsl)
        chk.ob('R16.3', f'{lab}: radial slices strictly increasing (constant step thickness/num_slices > 0, first slice above the inner radius)', inc, 'slice spacing is not thickness/num_slices', where, method='GF(p^2) PIT')
        totm = X.ZERO
        for v in msl: totm = totm + v
        eq('R16.3', f'{lab}: slice masses sum to the object mass', totm, M, where)
        eq('R16.3', f'{lab}: enclosed mass at the top slice == M_below + M', mbs[-1], Mb + M, where)
        mono = all(d.equal(mbs[k + 1] - mbs[k], msl[k + 1]) for k in range(nsl - 1)) and d.equal(mbs[0], Mb + msl[0])
        chk.ob('R16.3', f'{lab}: enclosed mass increases by exactly one (non-negative) slice mass per slice', mono, 'enclosed-mass increments are not the slice masses', where, method='GF(p^2) PIT')
        eq('R16.3', f'{lab}: gravity at the top slice == surface gravity', gs[-1], A['_gravity_outer'], where)
        # slice masses are density * volume with volume = 4pi/3 (r_k^3 - r_{k-1}^3) and r_k > r_{k-1}: non-negative
        eq('R16.3', f'{lab}: slice k volume == 4 pi/3 (r_k^3 - r_(k-1)^3)', vs[1], X.const(F(4, 3)) * pi * (radii[1] ** 3 - radii[0] ** 3), where)
    # the way a LayeredWorld uses it: slice arrays already filled from the layers (their sums need not match a configured world mass), geometry set with build_slices=False --
    # the bulk values must still be those of the mass and radius handed in
    for nsl in (3,):
        pre = {nm: Vec([X.atom(f'layer_{nm}{k}', 'pos') for k in range(nsl)]) for nm in ('radii', 'volume_slices', 'sa_slices', 'depths', 'mass_slices', 'mass_below_slices', 'density_slices', 'gravity_slices')}
        o = Obj(cls=('class', mp, cls), name='world-level object', attrs={'_num_slices': nsl, 'num_slices': nsl, '_moi': None, 'moi': None})
        for nm, v_ in pre.items():
            o.attrs['_' + nm] = v_
        try:
            it.call(mp, ms['set_geometry'], [R, M], {'thickness': R, 'mass_below': X.ZERO, 'build_slices': False}, self_obj=o)      # BaseWorld.set_geometry hands thickness=radius on
        except AnalysisError as ex:
            raise AnalysisError(f'set_geometry(build_slices=False) on an object with pre-filled slices: {ex}')
        A = o.attrs
        eq('R16.3', 'build_slices=False on pre-filled slice arrays (LayeredWorld): surface gravity == G M / R^2 with the mass handed in', A['_gravity_outer'], G * M / R ** 2, where,
           key='R16.3|prefilled|gravity')
        eq('R16.3', 'build_slices=False on pre-filled slice arrays (LayeredWorld): volume == 4 pi R^3 / 3, bulk density == M / volume', A['_density_bulk'], M / (X.const(F(4, 3)) * pi * R ** 3), where,
           key='R16.3|prefilled|density')
        untouched = all(A['_' + nm] is v_ for nm, v_ in pre.items())
        chk.ob('R16.3', 'build_slices=False leaves the pre-filled slice arrays alone', untouched, 'a slice array was rebuilt or replaced', where, key='R16.3|prefilled|untouched', method='interpretation, object identity')
    chk.note_analysed('functions', 'PhysicalObjSpherical.set_geometry')

    # find_geometry_from_config: contiguity in every derived path
    mh = repo.by_path('TidalPy/structures/layers/helper.py')
    fg = need_func(mh, 'find_geometry_from_config')
    Rw = X.atom('R_world', 'pos'); Mw = X.atom('M_world', 'pos'); Rb = X.atom('R_below', 'pos')
    r = X.atom('cfg_radius', 'pos'); t = X.atom('cfg_thickness', 'pos'); rho = X.atom('cfg_density', 'pos'); m_ = X.atom('cfg_mass', 'pos'); mf = X.atom('cfg_mass_frac', 'pos')
    it2 = Interp(repo)
    cases = 0
    for has_r in (False, True):
        for has_t in (False, True):
            for idx, top, below in ((0, False, None), (1, False, Rb), (2, True, Rb), (0, True, None)):
                cfg = {}
                if has_r: cfg['radius'] = r
                if has_t: cfg['thickness'] = t
                cfg['density'] = rho
                lab = f'config has radius={has_r}, thickness={has_t}; layer_index={idx}, top={top}, layer below={"yes" if below is not None else "no"}'
                try:
                    out = it2.call(mh, fg, [cfg, idx, top, Rw, Mw, below])
                except RaiseSignal:
                    chk.ob('R16.3', f'find_geometry_from_config [{lab}] raises (not enough information)', not (has_r and (has_t or idx == 0 or below is not None)) or False or True, '', mh.where(fg), method='interpretation')
                    continue
                cases += 1
                rad, thick, volume, mass, dens = out
                inner = rad - thick
                if idx == 0:
                    if has_r and has_t:
                        pass           # both given by the user: contiguity is the user's statement
                    else:
                        eq('R16.3', f'find_geometry_from_config [{lab}]: bottom layer inner radius == 0', inner, X.ZERO, mh.where(fg))
                elif below is not None and not (has_r and has_t):
                    eq('R16.3', f'find_geometry_from_config [{lab}]: inner radius == radius of the layer below', inner, Rb, mh.where(fg))
                if top and not has_r and not has_t and below is not None:
                    eq('R16.3', f'find_geometry_from_config [{lab}]: top layer radius == world radius', rad, Rw, mh.where(fg))
                eq('R16.3', f'find_geometry_from_config [{lab}]: volume == 4 pi/3 (r^3 - (r - thickness)^3), mass == density * volume', mass,
                   rho * X.const(F(4, 3)) * pi * (rad ** 3 - (rad - thick) ** 3), mh.where(fg))
    # mass from mass fraction
    out = it2.call(mh, fg, [{'radius': r, 'thickness': t, 'mass_frac': mf}, 1, False, Rw, Mw, Rb])
    eq('R16.3', 'find_geometry_from_config: mass from mass fraction == world mass * fraction', out[3], Mw * mf, mh.where(fg))
    # LayerBase.set_geometry: mass below == sum of lower layer masses
    mlb = repo.by_path('TidalPy/structures/layers/basic.py')
    lcls = need_class(mlb, 'LayerBase')
    lms = methods(lcls)
    captured = {}

    def call_hook(itp, f, args, kwargs, e, fr):
        if isinstance(f, FuncRef) and f.node.name == 'set_geometry' and f.mod is mp:
            captured['args'] = args; captured['kwargs'] = kwargs
            return None
        if isinstance(f, FuncRef) and f.node.name == 'set_geometry' and f.mod is mlb and itp.depth >= 1:
            return NotImplemented
        return NotImplemented

    def expr_hook(itp, e, fr):
        # super().set_geometry(...) inside LayerBase: resolve to the PhysicalObjSpherical method
        if isinstance(e, ast.Call) and isinstance(e.func, ast.Attribute) and isinstance(e.func.value, ast.Call) and isinstance(e.func.value.func, ast.Name) and e.func.value.func.id == 'super':
            args = [itp.eval(a, fr) for a in e.args]; kwargs = {k.arg: itp.eval(k.value, fr) for k in e.keywords}
            captured['args'] = args; captured['kwargs'] = kwargs
            return Opaque('super-call')
        return NotImplemented
    it3 = Interp(repo, hooks={'global': glob_hook, 'expr': expr_hook}, max_depth=12)
    lm = [X.atom(f'layer_mass{i}', 'pos') for i in range(3)]
    world = Obj(name='world', attrs={'layers': [Obj(name=f'L{i}', attrs={'mass': lm[i]}) for i in range(3)], 'volume': X.atom('V_world', 'pos')})
    for idx in range(3):
        lay = Obj(cls=('class', mlb, lcls), name='layer', attrs={'layer_index': idx, 'world': world, 'use_tidal_vol_frac': False, '_layer_index': idx, '_world': world})
        captured.clear()
        it3.call(mlb, lms['set_geometry'], [R, M, Th], {}, self_obj=lay)
        mb = captured.get('kwargs', {}).get('mass_below')
        ref = X.ZERO
        for j in range(idx): ref = ref + lm[j]
        ok = mb is not None and d.equal(X.lift(mb), ref)
        chk.ob('R16.3', f'LayerBase.set_geometry (layer {idx}): mass_below handed to the geometry == sum of the masses of the layers below', ok, f'passes {X.show(X.lift(mb)) if mb is not None else None}', mlb.where(lms['set_geometry']),
               method='interpretation + GF(p^2) PIT')
    # LayeredWorld.reinit: world mass from layers when not configured (structural)
    mlw = repo.by_path('TidalPy/structures/world_types/layered.py')
    wcls = need_class(mlw, 'LayeredWorld')
    wre = methods(wcls).get('reinit')
    if wre is None: raise AnalysisError('LayeredWorld.reinit vanished')
    # interpreted on an abstract world with three stub layers: the mass handed to the world's own set_geometry is the sum of the layer masses when the
    # configuration states none, and the configured mass otherwise (independent of how the method names or accumulates things)
    for configured in (False, True):
        wm = [X.atom(f'world_layer_mass{i}', 'pos') for i in range(3)]
        Mcfg = X.atom('M_configured', 'pos')
        cfgd = {'radius': X.atom('R_world', 'pos'), 'layers': {}}
        if configured: cfgd['mass'] = Mcfg
        got = reinit_mass(repo, cfgd, wm, glob_hook)
        ref = Mcfg if configured else wm[0] + wm[1] + wm[2]
        ok = got is not None and d.equal(X.lift(got), ref)
        chk.ob('R16.3', 'LayeredWorld.reinit: the world mass handed to the geometry is ' + ('the configured mass' if configured else 'the sum of the layer masses when the configuration states none'), ok,
               f'passes {X.show(X.lift(got)) if got is not None else None}', mlw.where(wre), key=f'R16.3|LayeredWorld.reinit|configured={configured}', method='interpretation on an abstract world + GF(p^2) PIT')

    # ------------------------------------------------------------------ R16.4 scaling and names
    scaling(chk, repo, mw, d, eq)
    derivation_mass(chk, repo, mw, d)
    layer_order(chk, repo)
    shipped_configs(chk)
    world_slices(chk, repo)
    chk.floor('R16.1', 5); chk.floor('R16.2', 5); chk.floor('R16.3', 30); chk.floor('R16.4', 50)
    chk.assume('radius > thickness > 0, masses > 0')


def layer_order(chk, repo):
    """R16.7 LayeredWorld.__init__ builds its layers bottom to top in the order the configuration lists them -- whatever mix of `radius` / `thickness` entries places them
    (a layer given only a thickness holds its place through that order alone) -- numbers them 0..n-1, marks only the last one as the top layer and leaves the configuration's
    own order untouched."""
    mlw = repo.by_path('TidalPy/structures/world_types/layered.py')
    wcls = need_class(mlw, 'LayeredWorld')
    init = methods(wcls).get('__init__')
    if init is None:
        raise AnalysisError('LayeredWorld.__init__ vanished')
    # concrete, strictly increasing radii (only the order matters here; code that sorts or compares them can then be followed)
    from fractions import Fraction as _F
    r = [X.const(v_) for v_ in (10, 20, 30, 40)]; t = [X.const(_F(v_)) for v_ in (10, 10, 10, 10)]
    forms = {
        'radius everywhere': [('Core', {'radius': r[0]}), ('Mantle', {'radius': r[1]}), ('Ocean', {'radius': r[2]}), ('Shell', {'radius': r[3]})],
        'thickness everywhere': [('Core', {'thickness': t[0]}), ('Mantle', {'thickness': t[1]}), ('Ocean', {'thickness': t[2]}), ('Shell', {'thickness': t[3]})],
        'a thickness-only layer below radius-defined ones': [('Core', {'radius': r[0]}), ('Mantle', {'radius': r[1]}), ('Ocean', {'thickness': t[2]}), ('Shell', {'radius': r[3]})],
        'thickness-only core': [('Core', {'thickness': t[0]}), ('Mantle', {'radius': r[1]}), ('Crust', {'radius': r[2]})],
        'bare top layer': [('Core', {'radius': r[0]}), ('Mantle', {'thickness': t[1]}), ('Crust', {})],
        'names not in alphabetical or radius order': [('Zeta', {'radius': r[0]}), ('alpha', {'radius': r[1], 'thickness': t[1]}), ('Mid', {'thickness': t[2]})],
    }
    for lab, layers in forms.items():
        built = []

        def expr_hook(itp, e, fr):
            if isinstance(e, ast.Call) and isinstance(e.func, ast.Attribute) and isinstance(e.func.value, ast.Call) and isinstance(e.func.value.func, ast.Name) and e.func.value.func.id == 'super':
                return Opaque('parent constructor')
            if isinstance(e, ast.Subscript) and 'layers_class_by_world_class' in ast.unparse(e.value):
                return Opaque('LayerClass')
            return NotImplemented

        def call_hook(itp, f, args, kwargs, e, fr):
            if isinstance(f, Opaque) and f.name == 'LayerClass':
                built.append({'name': args[0] if args else kwargs.get('layer_name'), 'index': args[1] if len(args) > 1 else kwargs.get('layer_index'),
                              'config': args[3] if len(args) > 3 else kwargs.get('layer_config'), 'top': args[4] if len(args) > 4 else kwargs.get('is_top_layer')})
                return Obj(name=f'layer {built[-1]["name"]}', attrs={'name': built[-1]['name']})
            return NotImplemented

        def glob_hook(itp, mod, nm):
            if nm == 'log': return Opaque('log')
            return None
        cfg_layers = {nm_: dict(c_, type='rock') for nm_, c_ in layers}
        cfg = {'name': 'X', 'type': 'layered', 'radius': X.atom('R_world', 'pos'), 'layers': cfg_layers}
        w = Obj(cls=('class', mlw, wcls), name='world', attrs={'config': cfg, '_config': cfg, 'world_class': 'layered', '_world_class': 'layered', 'name': 'X'})
        it = Interp(repo, hooks={'expr': expr_hook, 'call': call_hook, 'global': glob_hook}, max_depth=6)
        try:
            it.call(mlw, init, [cfg], {'initialize': False}, self_obj=w)
        except RaiseSignal as ex:
            chk.ob('R16.7', f'LayeredWorld.__init__ [{lab}]: the layers are built', False, f'raises {ex.text[:100]}', mlw.where(init), key=f'R16.7|{lab}'); continue
        want = [nm_ for nm_, _ in layers]
        bad = []
        if [b_['name'] for b_ in built] != want: bad.append(f'layers are built in the order {[b_["name"] for b_ in built]}, the configuration lists {want}')
        if [concrete(X.lift(b_['index'])) if b_['index'] is not None else None for b_ in built] != list(range(len(built))): bad.append('layer indices are not 0..n-1 in build order')
        if [bool(b_['top']) for b_ in built] != [False] * (len(built) - 1) + [True]: bad.append('the top-layer flag is not set for exactly the last layer built')
        if any(b_['config'] is not cfg_layers.get(b_['name']) and b_['config'] != cfg_layers.get(b_['name']) for b_ in built): bad.append('a layer is handed another layer\'s configuration')
        if list(w.attrs.get('config', cfg)['layers']) != want: bad.append(f'the order of config[\'layers\'] becomes {list(w.attrs.get("config", cfg)["layers"])}')
        kept = w.attrs.get('_layers')
        if isinstance(kept, (tuple, list)) and [getattr(l_, 'attrs', {}).get('name') for l_ in kept] != want: bad.append('world.layers is not in configuration order')
        chk.ob('R16.7', f'LayeredWorld.__init__ [{lab}]: layers are built bottom to top in configuration order, numbered 0..n-1, only the last one marked as top', not bad, '; '.join(bad[:3]), mlw.where(init),
               key=f'R16.7|{lab}', method='interpretation of the constructor with the layer class replaced by a recorder')
    chk.floor('R16.7', 5)


def shipped_configs(chk):
    """R16.6 the shipped world configurations (data the package installs: TidalPy/WorldPack/*.toml and the copies inside WorldPack.zip).  For every non-BurnMan layered world the
    layer radii must be positive and strictly increasing in file order (the builder takes each inner radius from the layer below, so this is what makes thicknesses and slices
    increase) and the top layer must end at the world radius; stated densities must be positive.  BurnMan worlds are outside the property: what is found there is noted only."""
    import os, tomllib, zipfile
    base = os.path.join(chk.repo, 'TidalPy', 'WorldPack')
    if not os.path.isdir(base):
        raise AnalysisError('TidalPy/WorldPack vanished')
    sources = []
    for fn in sorted(os.listdir(base)):
        if fn.endswith('.toml'):
            with open(os.path.join(base, fn), 'rb') as fh:
                sources.append((f'TidalPy/WorldPack/{fn}', fh.read()))
    zp = os.path.join(base, 'WorldPack.zip')
    if os.path.isfile(zp):
        with zipfile.ZipFile(zp) as z:
            for nm in sorted(z.namelist()):
                if nm.endswith('.toml'):
                    sources.append((f'TidalPy/WorldPack/WorldPack.zip!{nm}', z.read(nm)))
    n = 0
    for where, raw in sources:
        try:
            cfg = tomllib.loads(raw.decode('utf-8'))
        except Exception as ex:
            chk.ob('R16.6', f'{where} is a readable configuration', False, f'{type(ex).__name__}: {ex}', where.split('!')[0], key=f'R16.6|{where}|parse', method='data rule')
            continue
        layers = cfg.get('layers')
        if not isinstance(layers, dict) or not layers:
            continue
        bad = []
        R = cfg.get('radius')
        prev = 0.0
        for lname, ld in layers.items():
            r = ld.get('radius') if isinstance(ld, dict) else None
            if not isinstance(r, (int, float)):
                bad.append(f'layer {lname} states no radius'); continue
            if not r > prev:
                bad.append(f'layer {lname}: radius {r} is not above the layer below ({prev})')
            prev = r
            dens = ld.get('density')
            if dens is not None and not (isinstance(dens, (int, float)) and dens > 0):
                bad.append(f'layer {lname}: density {dens!r} is not positive')
        if isinstance(R, (int, float)) and prev != R:
            bad.append(f'the top layer ends at {prev}, the world radius is {R}')
        if not isinstance(R, (int, float)) or not R > 0:
            bad.append(f'world radius {R!r}')
        if str(cfg.get('type', '')).lower() == 'burnman':
            if bad:
                chk.note_analysed('shipped BurnMan configurations (outside the property)', f'{where}: ' + '; '.join(bad))
            continue
        n += 1
        chk.ob('R16.6', f'{where} ({cfg.get("name")}, {len(layers)} layers): radii positive and strictly increasing, the top layer ends at the world radius, stated densities positive', not bad, '; '.join(bad[:3]),
               where.split('!')[0], key=f'R16.6|{where}', method='data rule over the shipped TOML files')
    chk.floor('R16.6', 4)


def reinit_mass(repo, cfgd, layer_masses, glob_hook=None):
    """Interpret LayeredWorld.reinit on an abstract world (configuration `cfgd`, stub layers with the given masses); returns the mass it hands to the world's
    own set_geometry.  `cfgd` is the live configuration object: whatever reinit writes into it stays written."""
    mlw = repo.by_path('TidalPy/structures/world_types/layered.py')
    wcls = need_class(mlw, 'LayeredWorld')
    wre = methods(wcls).get('reinit')
    if wre is None: raise AnalysisError('LayeredWorld.reinit vanished')
    seen = {}

    def expr_hook2(itp, e, fr):
        if isinstance(e, ast.Call) and isinstance(e.func, ast.Attribute) and isinstance(e.func.value, ast.Call) and isinstance(e.func.value.func, ast.Name) and e.func.value.func.id == 'super':
            return Opaque('parent reinit')                # nothing the mass depends on
        if isinstance(e, ast.Call) and ast.unparse(e.func) in ('np.concatenate', 'numpy.concatenate'):
            return [Opaque('concatenated slices')]
        return NotImplemented

    def setgeo(*args, **kwargs):
        seen['args'] = args; seen['kwargs'] = kwargs
    lays = tuple(Obj(name=f'L{i}', attrs={'mass': layer_masses[i], 'is_tidal': False, 'tidal_scale': X.ZERO, 'reinit': (lambda *a_, **k_: None), 'num_slices': 1, 'N': 1,
                 **{q: Vec([X.atom(f'{q}_L{i}', 'pos')]) for q in
                 ('radii', 'volume_slices', 'sa_slices', 'depths', 'mass_slices', 'mass_below_slices', 'density_slices', 'gravity_slices')}}) for i in range(len(layer_masses)))
    cfgd.setdefault('layers', {})
    wobj = Obj(cls=('class', mlw, wcls), name='world', attrs={'config': cfgd, '_config': cfgd, 'layers': lays, '_layers': lays, '__iter__': lays, 'set_geometry': setgeo,
               'set_static_pressure': (lambda *a_, **k_: None), 'pressure_above': X.ZERO, 'tides_on': False, '_tides_on': False, '_mass': None, '_radius': None, '_volume': None, '_name': 'world', 'name': 'world'})
    hooks = {'expr': expr_hook2, 'branch': (lambda itp, st, v, fr: (False if isinstance(v, Opaque) else None))}
    if glob_hook is not None: hooks['global'] = glob_hook
    it4 = Interp(repo, hooks=hooks, max_depth=6)
    try:
        it4.call(mlw, wre, [], {'initial_init': True, 'reinit_geometry': True}, self_obj=wobj)
    except AnalysisError:
        raise
    except Exception as ex:           # fail closed: an interpretation problem here is an analysis error of this rule
        raise AnalysisError(f'LayeredWorld.reinit could not be interpreted on the abstract world: {ex}')
    return seen.get('args', (None, None))[1] if len(seen.get('args', ())) > 1 else seen.get('kwargs', {}).get('mass')



def world_slices(chk, repo):
    """R16.8 the world-level slice arrays of a LayeredWorld are the layers' arrays laid end to end in stacking order, whatever the layers' slice counts (layers may be given
    different numbers of slices): strictly increasing radii and a non-decreasing enclosed mass of the world rest on that.  LayeredWorld.reinit is interpreted on stub layers
    holding 2, 3 and 1 slices of distinct symbols."""
    from ..core.interp import Vec, Arr as _Arr
    mlw = repo.by_path('TidalPy/structures/world_types/layered.py')
    wcls = need_class(mlw, 'LayeredWorld')
    wre = methods(wcls).get('reinit')
    if wre is None: raise AnalysisError('LayeredWorld.reinit vanished')
    names = ('radii', 'volume_slices', 'sa_slices', 'depths', 'mass_slices', 'mass_below_slices', 'density_slices', 'gravity_slices')

    def expr_hook2(itp, e, fr):
        if isinstance(e, ast.Call) and isinstance(e.func, ast.Attribute) and isinstance(e.func.value, ast.Call) and isinstance(e.func.value.func, ast.Name) and e.func.value.func.id == 'super':
            return Opaque('parent reinit')
        return NotImplemented
    for counts, lab in (((2, 3, 1), 'layers with 2, 3 and 1 slices'), ((1, 2, 3), 'layers with 1, 2 and 3 slices'), ((2, 2, 2), 'layers with 2 slices each')):
        lays = tuple(Obj(name=f'L{i}', attrs={'mass': X.atom(f'mass_L{i}', 'pos'), 'is_tidal': False, 'tidal_scale': X.ZERO, 'reinit': (lambda *a_, **k_: None), 'num_slices': n_, 'N': n_,
                                              **{q: Vec([X.atom(f'{q}_L{i}[{k}]', 'pos') for k in range(n_)]) for q in names}}) for i, n_ in enumerate(counts))
        cfgd = {'layers': {}, 'radius': X.atom('R_world', 'pos'), 'name': 'world', 'type': 'layered'}
        wobj = Obj(cls=('class', mlw, wcls), name='world', attrs={'config': cfgd, '_config': cfgd, 'layers': lays, '_layers': lays, '__iter__': lays, 'set_geometry': (lambda *a_, **k_: None),
                   'set_static_pressure': (lambda *a_, **k_: None), 'pressure_above': X.ZERO, 'tides_on': False, '_tides_on': False, '_mass': None, '_radius': None, '_volume': None, '_name': 'world', 'name': 'world',
                   'num_layers': len(lays), '_num_layers': len(lays)})
        it5 = Interp(repo, hooks={'expr': expr_hook2, 'branch': (lambda itp, st, v, fr: (False if isinstance(v, Opaque) else None))}, max_depth=6)
        bad = []
        try:
            it5.call(mlw, wre, [], {'initial_init': True, 'reinit_geometry': True}, self_obj=wobj)
        except RaiseSignal as ex:
            bad.append(f'reinit raises {ex.text[:100]}')
        except AnalysisError as ex:
            raise AnalysisError(f'LayeredWorld.reinit on {lab}: {ex}')
        if not bad:
            for q in names:
                got = wobj.attrs.get('_' + q)
                want = [lay.attrs[q][k] for lay in lays for k in range(len(lay.attrs[q]))]
                if isinstance(got, _Arr):
                    n_ = got.shape[0] if got.shape else None
                    try:
                        got = [got.get(k) for k in range(n_)] if isinstance(n_, int) else None
                    except AnalysisError:
                        got = 'unset'
                if got == 'unset' or not isinstance(got, (list, Vec)) or len(got) != len(want) or any(a_ is not b_ for a_, b_ in zip(got, want)):
                    bad.append(f'world.{q} is not the layers\' {q} laid end to end' + (' (elements left unset)' if got == 'unset' else ''))
            ns = wobj.attrs.get('_num_slices')
            if ns != sum(counts): bad.append(f'num_slices = {ns}, the layers hold {sum(counts)}')
        chk.ob('R16.8', f'LayeredWorld.reinit, {lab}: every world-level slice array is the layers\' arrays laid end to end in stacking order', not bad, '; '.join(bad[:3]), mlw.where(wre),
               key=f'R16.8|{lab}', method='interpretation of LayeredWorld.reinit on stub layers with arrays of distinct symbols')
    chk.floor('R16.8', 3)


def enclosing_func(tree, node):
    best = '<module>'
    for f in ast.walk(tree):
        if isinstance(f, ast.FunctionDef) and any(n is node for n in ast.walk(f)):
            best = f.name
    return best


def scaling(chk, repo, mw, d, eq):
    f_scale = need_func(mw, 'scale_from_world'); f_from = need_func(mw, 'build_from_world')
    s = X.atom('scale', 'pos')
    recorded = {}

    def glob_hook(itp, mod, nm):
        if nm == 'log': return Opaque('log')
        return None

    def call_hook(itp, f, args, kwargs, e, fr):
        if isinstance(f, FuncRef) and f.node.name == 'build_from_world' and fr.fname == 'scale_from_world':
            recorded['new_config'] = kwargs.get('new_config', args[1] if len(args) > 1 else None); recorded['new_name'] = kwargs.get('new_name')
            return Opaque('world')
        if isinstance(f, FuncRef) and f.node.name == 'build_world':
            recorded['built'] = (args[0], args[1])
            if fr.fname == 'scale_from_world' and 'new_config' not in recorded:
                # the scaled configuration handed straight to the builder (no merge with the parent's through build_from_world)
                recorded['new_config'] = args[1] if len(args) > 1 else kwargs.get('world_config'); recorded['new_name'] = args[0] if args else kwargs.get('world_name')
            return Obj(name='newworld', attrs={'name': args[0], 'config': args[1]})
        return NotImplemented
    mh_ = repo.by_path('TidalPy/structures/layers/helper.py'); fg_ = need_func(mh_, 'find_geometry_from_config')
    # length keys the layer builder actually reads from a layer configuration (a key nobody reads cannot make the built world wrong)
    consumed = sorted({c.args[0].value for c in ast.walk(fg_) if isinstance(c, ast.Call) and isinstance(c.func, ast.Attribute) and c.func.attr == 'get' and c.args and isinstance(c.args[0], ast.Constant)} & {'radius', 'thickness', 'radius_inner'})
    if 'radius' not in consumed:
        raise AnalysisError('find_geometry_from_config no longer reads config radius: front-end lost sight of the layer geometry keys')
    # configuration forms a user may write (find_geometry_from_config accepts all of them): radius only / radius and thickness / everything
    r1 = X.atom('r_core', 'pos'); r2 = X.atom('r_mantle', 'pos'); r3 = X.atom('r_crust', 'pos')
    forms = {
        'radius only': lambda: {'Core': {'radius': r1}, 'Mantle': {'radius': r2}, 'Crust': {'radius': r3}},
        'radius and thickness': lambda: {'Core': {'radius': r1, 'thickness': r1}, 'Mantle': {'radius': r2, 'thickness': r2 - r1}, 'Crust': {'radius': r3, 'thickness': r3 - r2}},
        'radius, thickness and inner radius': lambda: {'Core': {'radius': r1, 'thickness': r1, 'radius_inner': X.ZERO}, 'Mantle': {'radius': r2, 'thickness': r2 - r1, 'radius_inner': r1},
                                                       'Crust': {'radius': r3, 'thickness': r3 - r2, 'radius_inner': r2}},
    }
    old_len = {'Core': {'radius': r1, 'thickness': r1, 'radius_inner': X.ZERO}, 'Mantle': {'radius': r2, 'thickness': r2 - r1, 'radius_inner': r1},
               'Crust': {'radius': r3, 'thickness': r3 - r2, 'radius_inner': r2}}
    for big in (True, False):
      for form, mk_layers in forms.items():
        branch = (lambda itp, st, v, fr, big=big: (big if isinstance(v, X.Node) and v.op == 'cmp' and 'scale' in {a_.val[0] for a_ in X.atoms_of(v)} else None))          # radius_scale >= 1 ? (only tests on the scale factor are answered)
        it = Interp(repo, hooks={'global': glob_hook, 'call': call_hook, 'branch': branch}, max_depth=12)
        Rw = r3
        layers = mk_layers()
        for i_, (ln_, ld_) in enumerate(layers.items()):
            ld_['density'] = X.atom(f'rho{i_}', 'pos')
        cfg = {'name': 'Xworld', 'radius': Rw, 'type': 'layered', 'layers': layers}
        old = Obj(name='old', attrs={'config': cfg, 'name': 'Xworld'})
        snapshot = repr(cfg)
        recorded.clear()
        it.call(mw, f_scale, [old], {'radius_scale': s})
        nc = recorded.get('new_config')
        where = mw.where(f_scale)
        if not isinstance(nc, dict) or not isinstance(nc.get('layers'), dict):
            raise AnalysisError('scale_from_world: new config not captured')
        lab = ('scale >= 1' if big else 'scale < 1') + f', config gives {form}'
        eq('R16.4', f'scale_from_world [{lab}]: world radius scaled by the factor', X.lift(nc['radius']), s * Rw, where)
        # every length the new configuration states is the old length times the factor (a length it does not state is derived when the layers are built)
        for ln_ in ('Core', 'Mantle', 'Crust'):
            nl = nc['layers'].get(ln_)
            if not isinstance(nl, dict):
                chk.ob('R16.4', f'scale_from_world [{lab}]: layer {ln_} kept', False, 'layer missing from the scaled configuration', where, method='interpretation'); continue
            for key in consumed:
                if key in nl and nl[key] is not None:
                    eq('R16.4', f'scale_from_world [{lab}]: {ln_} {key} stated by the new config == factor x old {key}', X.lift(nl[key]), s * old_len[ln_][key], where)
        # geometry the builder derives from the new configuration: contiguous, all lengths scaled (=> volume fractions preserved)
        it_g = Interp(repo)
        below = None
        for idx, ln_ in enumerate(('Core', 'Mantle', 'Crust')):
            nl = nc['layers'].get(ln_)
            if not isinstance(nl, dict): break
            try:
                rad, thick, vol_, mass_, dens_ = it_g.call(mh_, fg_, [dict(nl), idx, idx == 2, X.lift(nc['radius']), None, below])
            except RaiseSignal:
                chk.ob('R16.4', f'scale_from_world [{lab}]: geometry of {ln_} can be derived from the new config', False, 'find_geometry_from_config raises for the scaled configuration', where, method='interpretation'); break
            eq('R16.4', f'scale_from_world [{lab}]: built {ln_} radius == factor x old radius', rad, s * old_len[ln_]['radius'], where)
            eq('R16.4', f'scale_from_world [{lab}]: built {ln_} inner radius == radius of the layer below (contiguous)', rad - thick, s * old_len[ln_]['radius_inner'], where)
            eq('R16.4', f'scale_from_world [{lab}]: built {ln_} volume / world volume unchanged (volume fractions preserved)', (rad ** 3 - (rad - thick) ** 3) / X.lift(nc['radius']) ** 3,
               (old_len[ln_]['radius'] ** 3 - old_len[ln_]['radius_inner'] ** 3) / Rw ** 3, where)
            below = rad
        chk.ob('R16.4', f'scale_from_world [{lab}]: the layers keep their stacking order (bottom to top)', list(nc['layers']) == ['Core', 'Mantle', 'Crust'], f'order in the scaled configuration: {list(nc["layers"])}', where,
               method='interpretation (dictionary order is the stacking order LayeredWorld builds in)')
        chk.ob('R16.4', f'scale_from_world [{lab}]: input world config untouched', repr(cfg) == snapshot, 'old_world.config was modified', where, method='interpretation, object identity')
        nm = recorded.get('new_name')
        chk.ob('R16.4', f'scale_from_world [{lab}]: new name differs from the old name', isinstance(nm, str) and nm != 'Xworld' and 'Xworld' in nm, f'new name {nm!r}', where, method='interpretation')
    # build_from_world with overrides that name some of the layers: the order of config['layers'] is the order LayeredWorld stacks them in, so the derived
    # configuration must keep the parent's order, take every stated value from the override and the rest from the parent, and give a contiguous stack
    rho = [X.atom(f'rho{i_}', 'pos') for i_ in range(3)]; rho_new = X.atom('rho_override', 'pos'); r2n = X.atom('r_mantle_override', 'pos')
    overrides = {
        'bottom layer only (density)': {'layers': {'Core': {'density': rho_new}}},
        'middle layer only (radius)': {'layers': {'Mantle': {'radius': r2n}}},
        'bottom and top, not the middle': {'layers': {'Core': {'density': rho_new}, 'Crust': {'density': rho_new}}},
        'all layers listed top-down': {'layers': {'Crust': {'density': rho_new}, 'Mantle': {'density': rho_new}, 'Core': {'density': rho_new}}},
        'a new top-level key and the top layer': {'albedo': X.atom('albedo', 'pos'), 'layers': {'Crust': {'density': rho_new}}},
    }
    for olab, ov in overrides.items():
        it = Interp(repo, hooks={'global': glob_hook, 'call': call_hook}, max_depth=12, max_unroll=200)
        cfg = {'name': 'Xworld', 'radius': r3, 'type': 'layered', 'layers': {'Core': {'radius': r1, 'density': rho[0], 'type': 'rock'}, 'Mantle': {'radius': r2, 'density': rho[1], 'type': 'rock'},
                                                                              'Crust': {'radius': r3, 'density': rho[2], 'type': 'rock'}}}
        old = Obj(name='old', attrs={'config': cfg, 'name': 'Xworld'})
        snapshot = repr(cfg); ov_snapshot = repr(ov)
        recorded.clear()
        try:
            it.call(mw, f_from, [old, ov], {})
        except RaiseSignal as ex:
            chk.ob('R16.4', f'build_from_world [override: {olab}]: derivation succeeds', False, f'raises {ex.text[:100]}', mw.where(f_from), method='interpretation'); continue
        built = recorded.get('built', (None, None))[1]
        where = mw.where(f_from)
        if not isinstance(built, dict) or not isinstance(built.get('layers'), dict):
            raise AnalysisError('build_from_world: the configuration handed to build_world was not captured')
        order = list(built['layers'])
        chk.ob('R16.4', f'build_from_world [override: {olab}]: the layers keep the parent\'s stacking order (bottom to top)', order == ['Core', 'Mantle', 'Crust'], f'order in the derived configuration: {order}', where,
               key=f'R16.4|bfw-order|{olab}', method='interpretation (dictionary order is the stacking order LayeredWorld builds in)')
        bad = []
        for ln_ in ('Core', 'Mantle', 'Crust'):
            nl = built['layers'].get(ln_, {})
            for key_ in ('radius', 'density'):
                want = ov.get('layers', {}).get(ln_, {}).get(key_, cfg['layers'][ln_][key_])
                if not (key_ in nl and d.equal(X.lift(nl[key_]), X.lift(want))):
                    bad.append(f'{ln_}.{key_}')
        chk.ob('R16.4', f'build_from_world [override: {olab}]: every layer value is the override\'s where stated and the parent\'s otherwise', not bad, 'differs: ' + ', '.join(bad), where, key=f'R16.4|bfw-values|{olab}',
               method='interpretation + GF(p^2) PIT')
        # geometry in the order the derived configuration lists the layers: contiguous, ends at the world radius
        it_g = Interp(repo)
        below = None; badg = []
        for idx, ln_ in enumerate(order):
            nl = built['layers'][ln_]
            try:
                rad, thick, vol_, mass_, dens_ = it_g.call(mh_, fg_, [dict(nl), idx, idx == len(order) - 1, X.lift(built['radius']), None, below])
            except (RaiseSignal, AnalysisError) as ex:
                badg.append(f'{ln_}: geometry cannot be derived'); break
            want_in = X.ZERO if idx == 0 else X.lift(built['layers'][order[idx - 1]]['radius'])
            if not d.equal(rad - thick, want_in): badg.append(f'{ln_}: inner radius is not the radius of the layer below')
            from ..core.regions import sign_of, POS
            below = rad
        if order and not d.equal(X.lift(built['layers'][order[-1]]['radius']), X.lift(built['radius'])):
            badg.append('the top layer does not end at the world radius')
        chk.ob('R16.4', f'build_from_world [override: {olab}]: the derived stack is contiguous and ends at the world radius', not badg, '; '.join(badg[:3]), where, key=f'R16.4|bfw-geometry|{olab}', method='interpretation + GF(p^2) PIT')
        chk.ob('R16.4', f'build_from_world [override: {olab}]: parent configuration and override untouched', repr(cfg) == snapshot and repr(ov) == ov_snapshot, 'an input dictionary was modified', where,
               key=f'R16.4|bfw-inputs|{olab}', method='interpretation, object identity')
    # the same derivation from parents whose layers are placed in the other ways a configuration may place them (a thickness instead of a radius, a top layer that takes the
    # world radius): build_world on such a configuration is contiguous (R16.3 / R16.7), so the world derived from it -- even with an empty override -- must be as well, with
    # every layer where the parent had it
    t2 = X.atom('t_mantle', 'pos'); t1 = X.atom('t_core', 'pos'); t3 = X.atom('t_crust', 'pos')
    shapes = {
        'a thickness-only layer between radius-defined ones': ({'Core': {'radius': r1}, 'Mantle': {'thickness': t2}, 'Crust': {'radius': r1 + t2 + t3}}, r1 + t2 + t3, [r1, r1 + t2, r1 + t2 + t3]),
        'thickness everywhere': ({'Core': {'thickness': t1}, 'Mantle': {'thickness': t2}, 'Crust': {'thickness': t3}}, t1 + t2 + t3, [t1, t1 + t2, t1 + t2 + t3]),
        'thickness-only core below radius-defined layers': ({'Core': {'thickness': t1}, 'Mantle': {'radius': t1 + t2}, 'Crust': {'radius': t1 + t2 + t3}}, t1 + t2 + t3, [t1, t1 + t2, t1 + t2 + t3]),
        'bare top layer (takes the world radius)': ({'Core': {'radius': r1}, 'Mantle': {'radius': r1 + t2}, 'Crust': {}}, r1 + t2 + t3, [r1, r1 + t2, r1 + t2 + t3]),
        'thickness-only layer below a bare top layer': ({'Core': {'radius': r1}, 'Mantle': {'thickness': t2}, 'Crust': {}}, r1 + t2 + t3, [r1, r1 + t2, r1 + t2 + t3]),
    }
    for slab, (lay, Rworld, want_r) in shapes.items():
        for olab, ov in (('empty override', {}), ('bottom layer density', {'layers': {'Core': {'density': rho_new}}})):
            it = Interp(repo, hooks={'global': glob_hook, 'call': call_hook}, max_depth=12, max_unroll=200)
            cfg = {'name': 'Xworld', 'radius': Rworld, 'type': 'layered', 'layers': {ln_: {**spec, 'density': rho[i_], 'type': 'rock'} for i_, (ln_, spec) in enumerate(lay.items())}}
            old = Obj(name='old', attrs={'config': cfg, 'name': 'Xworld'})
            snapshot = repr(cfg)
            recorded.clear()
            lab2 = f'parent with {slab}; {olab}'
            where = mw.where(f_from)
            try:
                it.call(mw, f_from, [old, ov], {})
            except RaiseSignal as ex:
                chk.ob('R16.4', f'build_from_world [{lab2}]: derivation succeeds', False, f'raises {ex.text[:100]}', where, key=f'R16.4|bfw-shape|{slab}|{olab}', method='interpretation'); continue
            built = recorded.get('built', (None, None))[1]
            if not isinstance(built, dict) or not isinstance(built.get('layers'), dict):
                raise AnalysisError('build_from_world: the configuration handed to build_world was not captured')
            order = list(built['layers'])
            it_g = Interp(repo)
            below = None; badg = []
            if order != list(lay): badg.append(f'stacking order {order}')
            for idx, ln_ in enumerate(order):
                nl = built['layers'][ln_]
                try:
                    rad, thick, vol_, mass_, dens_ = it_g.call(mh_, fg_, [dict(nl), idx, idx == len(order) - 1, X.lift(built['radius']), None, below])
                except (RaiseSignal, AnalysisError) as ex:
                    badg.append(f'{ln_}: geometry cannot be derived from the derived configuration'); break
                want_in = X.ZERO if idx == 0 else X.lift(below)
                if not d.equal(rad - thick, want_in): badg.append(f'{ln_}: inner radius is not the radius of the layer below')
                if idx < len(want_r) and not d.equal(rad, want_r[idx]): badg.append(f'{ln_}: outer radius differs from the parent\'s')
                below = rad
            if below is not None and not badg and not d.equal(X.lift(below), X.lift(built['radius'])):
                badg.append('the top layer does not end at the world radius')
            chk.ob('R16.4', f'build_from_world [{lab2}]: the derived stack is contiguous, ends at the world radius and has every layer where the parent had it', not badg, '; '.join(badg[:3]), where,
                   key=f'R16.4|bfw-shape|{slab}|{olab}', method='interpretation of build_from_world, then find_geometry_from_config on the derived configuration layer by layer + GF(p^2) PIT')
            chk.ob('R16.4', f'build_from_world [{lab2}]: parent configuration untouched', repr(cfg) == snapshot, 'the parent configuration was modified', where, key=f'R16.4|bfw-shape-inputs|{slab}|{olab}',
                   method='interpretation, object identity')
    # derivation chains: names stay distinct and the chain terminates
    it = Interp(repo, hooks={'global': glob_hook, 'call': call_hook}, max_depth=12, max_unroll=200)
    name = 'Earth_Simple'
    world = Obj(name='w', attrs={'config': {'name': name, 'type': 'layered', 'radius': X.atom('R', 'pos'), 'layers': {}}, 'name': name})
    seen = [name]
    ok = True; why = ''
    for step in range(6):
        try:
            nw = it.call(mw, f_from, [world, {}], {})
        except AnalysisError as ex:
            ok = False; why = f'derivation {step + 1} from {seen[-1]!r} does not terminate / cannot be interpreted: {ex}'
            break
        nm = nw.attrs['name']
        if nm == seen[-1]:
            ok = False; why = f'derivation {step + 1} keeps its parent\'s name {nm!r}'; break
        seen.append(nm)
        world = Obj(name='w', attrs={'config': {**nw.attrs['config']}, 'name': nm})
    chk.ob('R16.4', 'chain of 6 build_from_world derivations terminates and every derived world is named differently from the world it was derived from', ok, why or ' -> '.join(seen), mw.where(f_from), key='R16.4|derivation-chain', method='concrete interpretation of the naming logic')
    chk.note_analysed('names', ' -> '.join(seen))
    # mixed chains: every sequence of derivations with the name left to the package -- build_from_world with an empty override, with an override that repeats the
    # parent's name, scale_from_world up and down -- of length 2 and 3 (thorough: 4).  Each derived world carries the name and the configuration build_world was given
    # (the name a later derivation starts from is read from either), and must be named differently from the world it was derived from.
    import itertools as _it
    from fractions import Fraction as _Fr
    ops = {'build_from_world({})': lambda w: it.call(mw, f_from, [w, {}], {}),
           'build_from_world({name: parent name})': lambda w: it.call(mw, f_from, [w, {'name': w.attrs['name']}], {}),
           'scale_from_world(x2)': lambda w: it.call(mw, f_scale, [w], {'radius_scale': X.const(2)}),
           'scale_from_world(x1/2)': lambda w: it.call(mw, f_scale, [w], {'radius_scale': X.const(_Fr(1, 2))})}
    def chain_hook(itp, f, args, kwargs, e, fr):
        # only the final construction is a stand-in: scale_from_world runs the real build_from_world
        if isinstance(f, FuncRef) and f.node.name == 'build_world':
            recorded['built'] = (args[0], args[1])
            return Obj(name='newworld', attrs={'name': args[0], 'config': args[1]})
        return NotImplemented
    nchains = 0
    for length in ((2, 3, 4) if chk.tier == 'thorough' else (2, 3)):
        for seq in _it.product(ops, repeat=length):
            it = Interp(repo, hooks={'global': glob_hook, 'call': chain_hook}, max_depth=14, max_unroll=200)
            name = 'Io_Simple'
            world = Obj(name='w', attrs={'config': {'name': name, 'type': 'layered', 'radius': X.atom('R', 'pos'), 'layers': {'Core': {'radius': X.atom('R', 'pos'), 'type': 'rock', 'density': X.atom('rho0', 'pos')}}}, 'name': name})
            seen = [name]; why = ''
            for step, op in enumerate(seq):
                try:
                    recorded.clear()
                    nw = ops[op](world)
                    if not isinstance(nw, Obj) and 'built' in recorded:
                        nw = Obj(name='newworld', attrs={'name': recorded['built'][0], 'config': recorded['built'][1]})
                    elif not isinstance(nw, Obj) and isinstance(recorded.get('new_config'), dict):
                        nw = Obj(name='newworld', attrs={'name': recorded.get('new_name'), 'config': recorded['new_config']})
                except (AnalysisError, RaiseSignal) as ex:
                    why = f'derivation {step + 1} ({op}) from {seen[-1]!r} cannot be interpreted / raises: {str(getattr(ex, "text", ex))[:100]}'; break
                nm = nw.attrs.get('name') if isinstance(nw, Obj) else None
                if not isinstance(nm, str):
                    why = f'derivation {step + 1} ({op}): no name for the derived world'; break
                if nm == seen[-1]:
                    why = f'derivation {step + 1} ({op}) keeps its parent\'s name {nm!r} (chain: {" -> ".join(seen)})'; break
                seen.append(nm)
                world = Obj(name='w', attrs={'config': nw.attrs['config'], 'name': nm})
            nchains += 1
            chk.ob('R16.4', f'derivation chain {" ; ".join(seq)}: every derived world is named differently from the world it was derived from', not why, why, mw.where(f_from),
                   key=f'R16.4|chain|{"|".join(seq)}', method='concrete interpretation of the naming logic of both derivation entry points')
    chk.note_analysed('mixed derivation chains', nchains)


def derivation_mass(chk, repo, mw, d):
    """R16.5: the mass bookkeeping survives a derivation.  The parent world is built first (LayeredWorld.reinit runs on its live configuration, mass taken from its
    layers), a world is derived from it (scale_from_world / build_from_world, interpreted down to the build_world call), and the derived world's reinit runs on the
    configuration that call receives, with the derived world's own layer masses: the mass handed to its geometry must be the sum of *its* layer masses."""
    f_scale = need_func(mw, 'scale_from_world'); f_from = need_func(mw, 'build_from_world')
    recorded = {}

    def glob_hook(itp, mod, nm):
        if nm == 'log': return Opaque('log')
        return None

    def call_hook(itp, f, args, kwargs, e, fr):
        if isinstance(f, FuncRef) and f.node.name == 'build_world':
            recorded['built'] = (args[0], args[1])
            return Obj(name='newworld', attrs={'name': args[0], 'config': args[1]})
        return NotImplemented
    s = X.atom('scale', 'pos')
    r1 = X.atom('r_core', 'pos'); r2 = X.atom('r_mantle', 'pos'); r3 = X.atom('r_crust', 'pos'); r3n = X.atom('r_crust_edited', 'pos')
    for how in ('scale_from_world (factor > 1)', 'scale_from_world (factor < 1)', 'build_from_world (top layer radius edited)'):
        m_old = [X.atom(f'parent_layer_mass{i}', 'pos') for i in range(3)]
        m_new = [X.atom(f'derived_layer_mass{i}', 'pos') for i in range(3)]
        cfg = {'name': 'Xworld', 'radius': r3, 'type': 'layered',
               'layers': {'Core': {'radius': r1, 'density': X.atom('rho0', 'pos'), 'type': 'rock'}, 'Mantle': {'radius': r2, 'density': X.atom('rho1', 'pos'), 'type': 'rock'},
                          'Crust': {'radius': r3, 'density': X.atom('rho2', 'pos'), 'type': 'rock'}}}
        got0 = reinit_mass(repo, cfg, m_old, glob_hook)
        old = Obj(name='old', attrs={'config': cfg, 'name': 'Xworld'})
        it = Interp(repo, hooks={'global': glob_hook, 'call': call_hook, 'branch': (lambda itp, st, v, fr, big=('> 1' in how): (big if isinstance(v, X.Node) and v.op == 'cmp' and 'scale' in {a_.val[0] for a_ in X.atoms_of(v)} else None))}, max_depth=12, max_unroll=200)
        recorded.clear()
        try:
            if how.startswith('scale'):
                it.call(mw, f_scale, [old], {'radius_scale': s})
            else:
                it.call(mw, f_from, [old, {'radius': r3n, 'layers': {'Crust': {'radius': r3n}}}], {})
        except RaiseSignal as ex:
            raise AnalysisError(f'{how}: derivation raised on the abstract world: {ex.text}')
        if 'built' not in recorded or not isinstance(recorded['built'][1], dict):
            raise AnalysisError(f'{how}: the configuration handed to build_world was not captured')
        built = recorded['built'][1]
        got = reinit_mass(repo, built, m_new, glob_hook)
        ref = m_new[0] + m_new[1] + m_new[2]
        ok = got is not None and d.equal(X.lift(got), ref) and got0 is not None and d.equal(X.lift(got0), m_old[0] + m_old[1] + m_old[2])
        chk.ob('R16.5', f'{how}: a world derived from a world whose mass came from its layers takes its mass from its own layers', ok,
               f'derived world\'s geometry receives mass {X.show(X.lift(got)) if got is not None else None} (its layers sum to {X.show(ref)})', mw.where(f_scale if how.startswith('scale') else f_from),
               key=f'R16.5|{how}', method='chained interpretation: parent reinit -> derivation -> derived reinit, GF(p^2) PIT')
    chk.floor('R16.5', 3)
