"""C09 — inclination functions and degree coefficients equal Kaula's definitions."""
from __future__ import annotations
import ast, math
from fractions import Fraction as F
from math import factorial
from ..core import expr as X, trigpoly as T
from ..core.interp import Interp, FuncRef, concrete
from ..core.report import AnalysisError
from ..frontend.pyfront import Repo
from ..oracles import kaula as K

LEVEL = 'proof'
TECHNIQUE = 'table extraction by abstract interpretation; canonical trigonometric-polynomial form (Laurent polynomial in exp(iI/2)) compared coefficient-wise with an exact Kaula F_lmp^2 oracle; exact rational comparison of the degree-coefficient table'
LEVEL_TEXT = ('Every entry of every inclination table (l=2..7, all m,p present or absent, obliquity on and off) is reduced to a canonical trigonometric '
              'polynomial and compared with Kaula eq. 3.62 squared for all I at once; the coefficient table is compared as exact rationals. Finite and complete.')
LEVEL_NOTE = ('Trusted: ast front-end, interpreter, our transcription of Kaula (1966) eq. 3.62 (self-checked against Kaula Table 1 on every run). '
              'Source literals are rounded decimals (2/3 typed to 25 digits), so coefficients are compared to 1e-11 of the largest coefficient.')
EXPLANATION = ('R09.5 element i of calc_inclination(array) is the scalar entry at obliquity i (two-element arrays [0, I]); R09.1 (on every outcome of a test the table makes on its argument) calc_inclination entries == F_lmp(I)^2 identically in I; omitted (m,p) must be identically zero. R09.2 calc_inclination_off entries == '
               'F_lmp(0)^2, omitted ones zero at I=0. R09.3 universal coefficients == (2-delta_0m)(l-m)!/(l+m)!. R09.4 registries map l to the function of that l.')
EXPLANATION += ' The registries are read with every top-level statement that binds or mutates them executed, and a who-may-write scan over all modules shows nothing else stores into them.'


def domain_regions(entry, I):
    """The property's domain is I in [0, pi] (closed).  An entry written with |I| or with a range reduction (I % P = I - P floor(I / P)) is a different trigonometric
    polynomial on each piece of the domain between the jumps of its floor terms; the pieces are enumerated: [(label, entry on that piece, None)] for the open pieces
    (identity in I demanded) and [(label, entry, I0)] for the jump points and the end points of the domain (value at I0 demanded).  Entries without such terms: one piece."""
    floors = {}; has_abs = [False]

    def scan(n, seen=set()):
        stack = [n]; seen = set()
        while stack:
            x = stack.pop()
            if x.uid in seen: continue
            seen.add(x.uid)
            if x.op == 'fn' and x.val == 'floor': floors[x.uid] = x
            if x.op == 'fn' and x.val == 'abs': has_abs[0] = True
            stack.extend(x.args)
    scan(entry)
    if not floors and not has_abs[0]:
        return [('', entry, None)]

    def no_abs(n):
        if n.op == 'fn' and n.val == 'abs' and n.args[0] is I:
            return I            # I >= 0 on the domain
        return None
    entry = X.rewrite(entry, no_abs)
    floors.clear(); scan(entry)
    if not floors:
        return [('', entry, None)]

    def q_at(f_, x):
        v = X.float_eval(f_.args[0], {'I': x, 'pi': math.pi})
        if abs(v.imag) > 1e-12: raise AnalysisError('complex argument of floor')
        return v.real
    cuts = set()
    for f_ in floors.values():
        if any(t.op == 'fn' and t.val == 'floor' for t in X_subnodes(f_.args[0])):
            raise AnalysisError('nested range reductions')
        q0, qm, q1 = q_at(f_, 0.0), q_at(f_, math.pi / 2), q_at(f_, math.pi)
        if abs(qm - (q0 + q1) / 2) > 1e-9 * max(1.0, abs(q0), abs(q1)):
            raise AnalysisError('range reduction whose argument is not affine in I')
        if abs(q1 - q0) < 1e-15:
            continue
        lo, hi = sorted((q0, q1))
        for j in range(math.ceil(lo - 1e-9), math.floor(hi + 1e-9) + 1):
            x = math.pi * (j - q0) / (q1 - q0)
            if -1e-9 <= x <= math.pi + 1e-9:
                cuts.add(min(max(x, 0.0), math.pi))
    pts = sorted(cuts | {0.0, math.pi})
    # merge cuts closer than rounding
    merged = []
    for x in pts:
        if not merged or x - merged[-1] > 1e-9: merged.append(x)
    pts = merged

    def fix(x, exact):
        def h(n):
            if n.op == 'fn' and n.val == 'floor' and n.uid in fl_new:
                q = q_at(n, x)
                if exact and abs(q - round(q)) < 1e-9: return X.const(int(round(q)))
                return X.const(math.floor(q))
            return None
        fl_new = {}
        stack = [entry]; seen = set()
        while stack:
            y = stack.pop()
            if y.uid in seen: continue
            seen.add(y.uid)
            if y.op == 'fn' and y.val == 'floor': fl_new[y.uid] = y
            stack.extend(y.args)
        return X.rewrite(entry, h)
    out = []
    for a_, b_ in zip(pts, pts[1:]):
        out.append((f' [on {a_ / math.pi:.4g} pi < I < {b_ / math.pi:.4g} pi]', fix((a_ + b_) / 2, False), None))
    for x in pts:
        out.append((f' [a jump point of the range reduction]' if 0.0 < x < math.pi else ' [end point of the domain]', fix(x, True), x))
    return out


def table_arms(it, m_, f, I):
    """[(label, table, None)] for the generic outcome first, then [(label, table, I0)] for every outcome that is taken at a single obliquity I0 only"""
    from ..core.interp import PathExplorer

    def one(fork):
        it.hooks['fork'] = fork
        try:
            return it.call(m_, f, [I])
        finally:
            it.hooks.pop('fork', None)
    generic = []; points = []
    for tr_, tab in PathExplorer(max_paths=16).run(one):
        if not isinstance(tab, dict):
            raise AnalysisError(f'{m_.where(f)}: does not return a dict literal')
        pins = {}
        open_arm = True
        for (c_, _w, _t, o_) in tr_:
            kind, pn = PathExplorer.arm(c_, o_)
            if kind == 'equality':
                open_arm = False
                if pn is None or set(pn) != {'I'}:
                    raise AnalysisError(f'{m_.where(f)}: a test on the obliquity that holds on a set of measure zero which cannot be read off ({_t})')
                pins.update(pn)
        if open_arm: generic.append((PathExplorer.label(tr_), tab, None))
        else: points.append((PathExplorer.label(tr_), tab, float(pins['I'])))
    if len(generic) != 1:
        raise AnalysisError(f'{m_.where(f)}: {len(generic)} generic outcomes of the tests on the obliquity (expected one)')
    return generic + points


def X_subnodes(n):
    stack = [n]; seen = set()
    while stack:
        x = stack.pop()
        if x.uid in seen: continue
        seen.add(x.uid)
        yield x
        stack.extend(x.args)


TECHNIQUE += '; two successive calls of every exported table function in one interpreter state with the argument array updated in place (arrays as mutable cells, closures and nonlocal state interpreted)'

EXPLANATION += ' R09.6 every exported full table, called twice in one state -- the second time with the same array updated in place, and with a fresh array -- returns the table at the obliquity of that call; R09.4 a wrapper around a table is judged by what it returns.'

def run(chk):
    from ..core.interp import PathExplorer
    repo = Repo(chk.repo)
    it = Interp(repo)
    if not K.selfcheck():
        raise AnalysisError('Kaula oracle fails its literature self-check')
    I = X.atom('I', 'real')
    tables = {}
    for l in range(2, 8):
        m_ = repo.by_path(f'TidalPy/tides/inclination_funcs/orderl{l}.py')
        for fname in ('calc_inclination', 'calc_inclination_off'):
            f = m_.defs.get(fname)
            if not isinstance(f, ast.FunctionDef):
                raise AnalysisError(f'{m_.rel()}: {fname} vanished')
            # a table may test its argument (a shortcut for zero obliquity): every outcome is a table of its own -- the generic one an identity in I, one taken only at a
            # single obliquity a set of values at that obliquity
            arms = table_arms(it, m_, f, I)
            tab = arms[0][1]
            tables[(l, fname)] = (tab, m_, f)
            chk.note_analysed('functions', f'orderl{l}.{fname}')
            where = m_.where(f)
            off = fname.endswith('_off')
            for key in tab:
                if not (isinstance(key, tuple) and len(key) == 2 and all(isinstance(v, int) for v in key) and 0 <= key[0] <= l and 0 <= key[1] <= l):
                    chk.ob('R09.1', f'l={l} {fname} key {key!r}', False, 'key outside (m,p) in 0..l', where)
            for m in range(l + 1):
                for p in range(l + 1):
                    ref = K.kaula_F2(l, m, p)
                    inst = f'l={l} {fname}[({m},{p})]'
                    if off:
                        r0 = K.at_zero(ref)[0]
                        if (m, p) not in tab:
                            chk.ob('R09.2', inst + ' (omitted)', r0 == 0, f'omitted but F_lmp(0)^2 = {float(r0):.6g}', where, key=f'R09.2|{inst}', method='exact')
                            continue
                        got = T.to_trig(tab[(m, p)])
                        g0 = K.at_zero(got)
                        ok = g0[1] == 0 and abs(float(g0[0] - r0)) <= 1e-12 * max(abs(float(r0)), 1e-300) and not (r0 == 0 and g0[0] != 0)
                        nontrig = all(k == () for k in got)
                        chk.ob('R09.2', inst, ok and nontrig, f'table {float(g0[0])!r} vs F_lmp(0)^2 {float(r0)!r}' + ('' if nontrig else ' (entry depends on I)'), where, key=f'R09.2|{inst}', method='exact')
                    else:
                        if (m, p) not in tab:
                            chk.ob('R09.1', inst + ' (omitted)', not ref, 'omitted but F_lmp^2 is not identically zero', where, key=f'R09.1|{inst}', method='canonical trig form')
                            continue
                        ok = True; detail = ''
                        try:
                            pieces = list(domain_regions(tab[(m, p)], I))
                            for alab, atab, apoint in arms[1:]:
                                # an arm taken at one obliquity only: the values it returns there (an omitted entry stands for zero)
                                pieces.append((alab, atab.get((m, p), X.ZERO), apoint))
                            for rlab, entry, point in pieces:
                                if point is not None:
                                    # a single obliquity of the closed domain [0, pi] at which a range reduction changes branch: the value there
                                    gv = X.float_eval(entry, {'I': point, 'pi': math.pi}); rv = ev(ref, point)
                                    if abs(gv - rv) > 1e-9 * max(1.0, abs(rv), T.t_maxabs(ref)):
                                        ok = False; detail = f'at I = {point!r}{rlab}: table = {gv.real:.8g}, Kaula = {rv.real:.8g}'
                                        break
                                    continue
                                got = T.to_trig(entry)
                                ok, worst, scale = T.t_close(got, ref)
                                if not ok:
                                    detail = (f'harmonic {fmt_key(worst[0])}: coefficient differs by {worst[1]:.6g} (scale {scale:.6g}); '
                                              f'at I=0.7 table={ev(got, 0.7):.8g} Kaula={ev(ref, 0.7):.8g}{rlab}')
                                    break
                        except AnalysisError as ex:
                            chk.ob('R09.1', inst, False, f'not a trigonometric polynomial of I: {ex}', where); continue
                        chk.ob('R09.1', inst, ok, detail, where, key=f'R09.1|{inst}', method='canonical trig form')
    chk.floor('R09.1', 199); chk.floor('R09.2', 199)
    # R09.5 arrays: "for all obliquities" includes arrays of them; element i of every entry is the entry at obliquity i whatever the other elements are (a reduction over the
    # whole array that selects a shortcut makes one element depend on its neighbours).  A two-element array [0, I] against the scalar tables.
    from ..core.interp import Vec, PathExplorer
    d5 = X.Decider(seed=chk.seed + 9, k=2)
    for l in range(2, 8):
        tab_s, m_, f = tables[(l, 'calc_inclination')]
        itv = Interp(repo); itv.array_mode = True

        def one(fork, itv=itv, m_=m_, f=f):
            itv.hooks['fork'] = fork
            try:
                return itv.call(m_, f, [Vec([X.ZERO, I])])
            finally:
                itv.hooks.pop('fork', None)
        bad = []
        for tr_, tv in PathExplorer(max_paths=16).run(one):
            if any(PathExplorer.arm(c_, o_)[0] == 'equality' for (c_, _w, _t, o_) in tr_):
                continue                  # the second element is zero as well: an all-zero array, covered by the scalar arms
            if not isinstance(tv, dict):
                bad.append('does not return a dictionary for an array'); continue
            for key, ref_e in tab_s.items():
                v = tv.get(key, X.ZERO)
                v = getattr(v, 'v', v)
                e1 = v[1] if isinstance(v, (Vec, list)) and len(v) == 2 else v
                e0 = v[0] if isinstance(v, (Vec, list)) and len(v) == 2 else v
                if not d5.equal(X.lift(e1), X.lift(ref_e)):
                    bad.append(f'{key}: element 1 (obliquity I) is not the entry at I'); 
                g0 = X.float_eval(X.lift(e0), {'I': 0.0, 'pi': math.pi}); r0 = X.float_eval(X.lift(ref_e), {'I': 0.0, 'pi': math.pi})
                if abs(g0 - r0) > 1e-9 * max(1.0, abs(r0)):
                    bad.append(f'{key}: element 0 (obliquity 0) is {g0.real:.6g}, the entry at 0 is {r0.real:.6g}')
        chk.ob('R09.5', f'l={l} calc_inclination([0, I]): each element of every entry is the scalar entry at that obliquity', not bad, '; '.join(bad[:3]), m_.where(f), key=f'R09.5|{l}',
               method='whole-array interpretation (two cells, reductions forked) + GF(p^2) PIT against the scalar table')
    chk.floor('R09.5', 6)

    # R09.3 universal coefficients
    mu = repo.by_path('TidalPy/tides/universal_coeffs.py')
    f = mu.defs.get('get_universal_coeffs')
    if f is None:
        raise AnalysisError('get_universal_coeffs vanished')
    for l in range(2, 8):
        tab = it.call(mu, f, [l])
        if sorted(tab) != list(range(l + 1)):
            chk.ob('R09.3', f'l={l} keys', False, f'keys {sorted(tab)} != 0..{l}', mu.where(f))
        for m in range(l + 1):
            ref = F((1 if m == 0 else 2) * factorial(l - m), factorial(l + m))
            got = concrete(tab.get(m)) if m in tab else None
            chk.ob('R09.3', f'universal_coeffs[l={l}][m={m}]', got is not None and F(got) == ref,
                   f'table {got} vs (2-d0m)(l-m)!/(l+m)! = {ref}', mu.where(f), method='exact rational')
    chk.floor('R09.3', 33)

    # R09.4 registries
    mi = repo.by_path('TidalPy/tides/inclination_funcs/__init__.py')
    for reg, fname in (('inclination_functions_on', 'calc_inclination'), ('inclination_functions_off', 'calc_inclination_off')):
        d = it.global_name(mi, reg)
        for l in range(2, 8):
            fr = d.get(l)
            ok, why_ = same_table(repo, fr, tables[(l, fname)], I, d5)
            chk.ob('R09.4', f'{reg}[{l}]', ok, why_, mi.where(mi.defs[reg]), method='resolved callee identity, or (a wrapper) interpretation of the call and entry-wise comparison')
        extra = [k for k in d if k not in range(2, 8)]
        chk.ob('R09.4', f'{reg} keys', not extra, f'extra keys {extra}', mi.where(mi.defs[reg]))
    top = it.global_name(mi, 'inclination_functions')
    chk.ob('R09.4', 'inclination_functions[True/False]', top.get(True) is it.global_name(mi, 'inclination_functions_on') and top.get(False) is it.global_name(mi, 'inclination_functions_off'),
           'True/False do not select the on/off registries', mi.where(mi.defs['inclination_functions']))
    g = mi.defs.get('get_inclination_func')
    if g is not None:
        for l in range(2, 8):
            for nz, fname in ((True, 'calc_inclination'), (False, 'calc_inclination_off')):
                fr = it.call(mi, g, [l, nz])
                ok, why_ = same_table(repo, fr, tables[(l, fname)], I, d5)
                chk.ob('R09.4', f'get_inclination_func({l},{nz})', ok, why_, mi.where(g), method='resolved callee identity, or (a wrapper) interpretation of the call and entry-wise comparison')
    # R09.6 what a table function returns depends on the obliquity it is given NOW: the exported functions called twice in one interpreter state with the same array object whose
    # content was updated in place in between (the state array of a time loop), and with a fresh array; each result against the scalar table at the obliquity of that call.
    from ..core.interp import ArrBox
    I2 = X.atom('I_second', 'pos')
    exported = [(f'inclination_functions_on[{l}]', it.global_name(mi, 'inclination_functions_on').get(l), l) for l in range(2, 8)]
    exported += [(f'calc_inclin_l{l}', it.global_name(mi, f'calc_inclin_l{l}'), l) for l in range(2, 8) if f'calc_inclin_l{l}' in mi.defs or f'calc_inclin_l{l}' in mi.imports]
    for lab, fr, l in exported:
        if not isinstance(fr, FuncRef):
            chk.ob('R09.6', f'{lab}: called twice', False, f'not a function of the repository: {fr!r}', mi.where(mi.tree.body[0]), key=f'R09.6|{lab}'); continue
        tab_s = tables[(l, 'calc_inclination')][0]
        for how in ('the same array updated in place', 'a fresh array'):
            ith = Interp(repo); ith.array_mode = True
            cell = ArrBox(I)

            def two(fork, ith=ith, fr=fr, cell=cell, how=how):
                ith.hooks['fork'] = fork
                try:
                    cell.v = I
                    ith.__dict__.pop('_functools_memo', None)
                    r1 = ith.apply(fr, [cell], {}, None, None)
                    if how.startswith('the same'):
                        cell.v = I2; a2 = cell
                    else:
                        a2 = ArrBox(I2)
                    return r1, ith.apply(fr, [a2], {}, None, None)
                finally:
                    ith.hooks.pop('fork', None)
            bad = []
            try:
                outcomes = PathExplorer(max_paths=32).run(two)
            except AnalysisError as ex:
                raise AnalysisError(f'{lab} called twice: {ex}')
            for tr_, (r1, r2) in outcomes:
                if any(PathExplorer.arm(c_, o_)[0] == 'equality' for (c_, _w, _t, o_) in tr_):
                    continue              # an exact coincidence of the two obliquities (or an obliquity of exactly zero): covered by the scalar arms
                for which, res, sub_ in (('first', r1, None), ('second', r2, {'I': I2})):
                    if not isinstance(res, dict):
                        bad.append(f'{which} call does not return a dictionary'); continue
                    for key, ref_e in tab_s.items():
                        v = res.get(key, X.ZERO); v = getattr(v, 'v', v)
                        want = X.lift(ref_e) if sub_ is None else X.subst(X.lift(ref_e), sub_)
                        if not d5.equal(X.lift(v), want):
                            bad.append(f'{which} call, entry {key}: not the table at the obliquity of that call'); break
            chk.ob('R09.6', f'{lab} called twice in one state, the second time with {how}: each call returns the table at the obliquity it was given', not bad, '; '.join(bad[:3]), mi.where(fr.node),
                   key=f'R09.6|{lab}|{how}', method='two successive calls in one interpreter state, arrays as mutable cells + GF(p^2) PIT against the scalar table')
    chk.floor('R09.6', 12)
    from .common import registry_writers
    registry_writers(chk, 'R09.4', repo, 'TidalPy/tides/inclination_funcs/__init__.py', ['inclination_functions_on', 'inclination_functions_off', 'inclination_functions'])
    registry_writers(chk, 'R09.4', repo, 'TidalPy/tides/modes/mode_calc_helper/__init__.py', ['inclination_functions_lookup'])
    # multi-l helpers
    mh = repo.by_path('TidalPy/tides/modes/mode_calc_helper/__init__.py')
    look = it.global_name(mh, 'inclination_functions_lookup')
    for flag, fname in ((True, 'calc_inclination'), (False, 'calc_inclination_off')):
        for L, fr in sorted(look[flag].items()):
            inst = f'inclination_functions_lookup[{flag}][{L}]'
            if not isinstance(fr, FuncRef):
                chk.ob('R09.4', inst, False, 'not a repo function', mh.where(mh.defs['inclination_functions_lookup'])); continue
            # (the outcome on which every test the tables make on the obliquity takes its generic side: that is the outcome `tables` holds)
            def one_h(fork, fr=fr):
                it.hooks['fork'] = fork
                try: return it.call(fr.mod, fr.node, [I])
                finally: it.hooks.pop('fork', None)
            gen_ = [r_ for tr_, r_ in PathExplorer(max_paths=64).run(one_h) if not any(PathExplorer.arm(c_, o_)[0] == 'equality' for (c_, _w, _t, o_) in tr_)]
            if len(gen_) != 1:
                raise AnalysisError(f'{fr.mod.where(fr.node)}: {len(gen_)} generic outcomes of the tests on the obliquity (expected one)')
            res = gen_[0]
            why = ''
            if not isinstance(res, dict) or sorted(res) != list(range(2, L + 1)):
                why = f'degrees {sorted(res) if isinstance(res, dict) else "?"} != 2..{L}'
            else:
                for l in range(2, L + 1):
                    rt = tables[(l, fname)][0]
                    if sorted(res[l]) != sorted(rt) or any(res[l][k] is not rt[k] for k in rt):
                        why += f'l={l} table differs from orderl{l}.{fname}; '
            chk.ob('R09.4', inst, not why, why, fr.mod.where(fr.node), method='node identity')
    chk.floor('R09.4', 30)
    chk.trusted_base.append('vstatic/oracles/kaula.py (Kaula 1966 eq. 3.62; self-check against Table 1 each run)')


def same_table(repo, fr, table, I, dq):
    """the callable `fr` is the table function itself, or returns -- for a generic obliquity -- entry for entry what it returns"""
    tab, m_, f_ = table
    if isinstance(fr, FuncRef) and fr.node is f_:
        return True, ''
    if not isinstance(fr, FuncRef):
        return False, f'points at {fr!r}'
    from ..core.interp import PathExplorer
    itw = Interp(repo)

    def one(fork):
        itw.hooks['fork'] = fork
        try: return itw.apply(fr, [I], {}, None, None)
        finally: itw.hooks.pop('fork', None)
    try:
        gen_ = [r_ for tr_, r_ in PathExplorer(max_paths=64).run(one) if not any(PathExplorer.arm(c_, o_)[0] == 'equality' for (c_, _w, _t, o_) in tr_)]
    except AnalysisError as ex:
        return False, f'points at {fr!r}, which cannot be interpreted: {ex}'
    if len(gen_) != 1 or not isinstance(gen_[0], dict):
        return False, f'points at {fr!r}: {len(gen_)} generic outcomes'
    res = gen_[0]
    if sorted(res, key=repr) != sorted(tab, key=repr):
        return False, f'points at {fr!r}, whose keys differ from the table\'s'
    for k_ in tab:
        if res[k_] is not tab[k_] and not dq.equal(X.lift(getattr(res[k_], 'v', res[k_])), X.lift(tab[k_])):
            return False, f'points at {fr!r}: entry {k_} differs from the table'
    return True, ''


def fmt_key(k):
    if not k: return 'constant'
    return 'exp(i*' + '+'.join(f'{float(e):g}I' for m, e in k) + ')'


def ev(poly, x):
    import cmath
    s = 0
    for k, c in poly.items():
        ph = sum(float(e) for m, e in k) * x
        s += complex(float(c[0]), float(c[1])) * cmath.exp(1j * ph)
    return s.real
