"""C03 — Love numbers are invariant under representation changes (formula level: dimensional covariance, round trip, layout)."""
from __future__ import annotations
import ast
from fractions import Fraction as F
from ..core import expr as X, scaling as S
from ..core.interp import Interp, Arr, Frame, Opaque, Ref, FuncRef
from ..core.report import AnalysisError
from ..frontend.pyfront import Repo
from ..oracles import ts72
from .common import need_func, need_class, methods, make_eq
from . import solver_model as SM
from .c04 import make_interp, install_rules, FUNCS
from .c02 import SLOT, KINDS, MAXY, find_if

LEVEL = 'other'
TECHNIQUE = 'dimensional analysis as scaling covariance: every solver kernel (ODE matrices, starting vectors, interface maps, boundary values, collapse, Love extraction, re-dimensionalisation factors) is extracted symbolically and checked to transform with its physical dimension under arbitrary changes of the kg, m, s units (polynomial identity testing); round trip of the in-place non-dimensionalisation; writer/reader agreement of the solution layout; reciprocity (Saito-Molodensky) by conservation of the bilinear concomitant of the ODE classes, its continuity under the interface conditions and its surface value under the solver\'s own tidal and loading boundary vectors; re-dimensionalisation call arguments recorded from the whole-function symbolic execution of the driver; unit inference (exponents of kg, m, s) over the statements of the driver; the conversion helpers run for two planets in one interpreter state (module-level state modelled) against a fresh state'
LEVEL_TEXT = ('Integrator/grid invariance needs the numerical solution and is not decided. The Saito-Molodensky relation k_load = k_tidal - h_tidal is decided at formula level (R03.5): it holds for the exact solutions of the implemented equations, interface conditions, boundary vectors and Love extraction. Decided as well: dimensional homogeneity of every formula in the solve, which is exactly what makes '
              'the result independent of internal non-dimensionalisation and of an exact rescaling of the planet (lengths x a, moduli x a^2, gravity x a at fixed density and frequency is one subgroup of the unit changes); '
              'non-dimensionalise then re-dimensionalise is the identity on all five arrays and four scalars; the solution-type layout is written and read with the same index polynomial.')
LEVEL_NOTE = ('Trusted: front-end, interpreter, the assignment of physical dimensions to inputs (radius m, density kg m-3, moduli Pa, gravity m s-2, frequency s-1, G m3 kg-1 s-2; y1,y3 s2 m-1; y2,y4 kg m-3; y5 1; y6,y7 m-1). '
              'The absolute integration tolerance `atol` is a dimensional number applied to non-dimensional and dimensional solves alike (assumption, affects accuracy only).')
EXPLANATION = 'R03.1 non-dim o re-dim == identity and conversion factors carry the right dimension; R03.2 scaling covariance of all kernels; R03.3 solution layout agreement (writer collapse for every layer kind, readers by interpretation); R03.4 sibling unit system; R03.6 every requested type gets the Love numbers of its own assembled solution; R03.7 dimensional homogeneity of the arithmetic of the driver itself (unit inference); R03.8 the conversion helpers return the same values whichever planet was converted before (no stale module-level cache); R03.9 a type requested alone returns what it returns together with the others (5 whole-driver runs per structure); R03.10 y3 of dynamic liquid layers in the returned solution obeys the elimination formula with the dimensional frequency, non-dimensionalised or not; R03.11 no loop index narrower than its bound (finer grids); R03.12 the surface condition is built with the gravity and G of the unit system of the solve; R03.5 reciprocity: W(tidal, loading) conserved in every layer kind, continuous across interfaces, and equal to (2l+1)R/(4 pi G) [k_t - h_t - k_load] at the surface.'


EXPLANATION += ' R03.13 the boundary table (default request and explicit requests) holds the surface values of the unit system of the solve, dimensional and non-dimensionalised.'

TECHNIQUE += '; the boundary table of the driver (default and explicit requests) by prefix interpretation in both unit systems'

EXPLANATION += ' R03.11 also: a typed integer variable used as an offset inside a subscript is at least as wide as the integers it is computed from (a narrower one addresses another element once the value exceeds its range).'
def run(chk):
    repo = Repo(chk.repo)
    d = X.Decider(seed=chk.seed, k=2 if chk.tier == 'quick' else 6)
    eq = make_eq(chk, d)
    call_history(chk, repo, d)
    chk.floor('R03.8', 6)
    roundtrip(chk, repo, d, eq)
    ode_cov(chk, repo, d)
    start_cov(chk, repo, d)
    iface_cov(chk, repo, d)
    misc_cov(chk, repo, d, eq)
    layout(chk, repo, d, eq)
    reciprocity(chk, repo, d)
    chk.floor('R03.5', 12)
    # ---- R03.4 sibling implementation (interpreted solver package): its unit system and round trip
    from . import legacy_solver
    legacy_solver.nondimensional(chk, repo, X.Decider(seed=chk.seed, k=3), 'R03.4')
    chk.floor('R03.4', 14)
    chk.floor('R03.1', 15); chk.floor('R03.2', 48); chk.floor('R03.3', 7)
    # ---- R03.6 a solution type requested together with others gets the Love numbers of its own assembled solution (whole-driver symbolic execution, dimensional and
    #      non-dimensionalised)
    from . import solver_whole as SW
    SW.guarded(chk, 'C03', lambda: SW.assembled(chk, repo, None, None, 'R03.6'))
    SW.guarded(chk, 'C03', lambda: SW.alone_vs_together(chk, repo, 'R03.9'))
    SW.guarded(chk, 'C03', lambda: SW.liquid_y3(chk, repo, 'R03.10'))
    SW.guarded(chk, 'C03', lambda: SW.surface_arguments(chk, repo, 'R03.12'))
    # R03.13: the surface values the driver imposes -- for the default request (solve_for=None) and for every explicit one -- are those of the unit system of the solve,
    #         dimensional and non-dimensionalised (C02's boundary-table rule taken under C03: a table that is right only for R = 1 breaks the invariance under internal
    #         non-dimensionalisation, not the non-dimensionalised solve)
    from . import c02
    from .common import RuleAlias
    al13 = RuleAlias(chk, 'R03.13', lambda rule, inst: rule == 'R02.2' and ('default' in inst or 'condition of type i' in inst))
    c02.bc_table(al13, repo, d, make_eq(al13, d))
    chk.floor('R03.13', 10)
    chk.floor('R03.12', 6)
    chk.floor('R03.9', 6); chk.floor('R03.10', 6)
    # ---- R03.11 "a finer radial grid": no loop index of the solve is narrower than the bound it runs to (a counter that wraps at 256 slices changes the answer on fine grids only)
    from .common import index_width_lint
    index_width_lint(chk, repo, 'R03.11', ['TidalPy/RadialSolver/**/*.pyx', 'TidalPy/utilities/dimensions/*.pyx'])
    chk.floor('R03.11', 30)
    love_readers(chk, repo)
    # ---- R03.7 the driver's own arithmetic is dimensionally homogeneous (it runs the same statements on dimensional and on non-dimensionalised inputs)
    from .common import unit_lint, need_func
    ms_ = repo.by_path('TidalPy/RadialSolver/solver.pyx')
    fdrv = need_func(ms_, 'cf_radial_solver')
    LEN = (0, 1, 0)
    src = {'radius_array_ptr': LEN, 'density_array_ptr': (1, -3, 0), 'gravity_array_ptr': (0, 1, -2), 'bulk_modulus_array_ptr': (1, -1, -2), 'complex_shear_modulus_array_ptr': (1, -1, -2),
           'frequency': (0, 0, -1), 'planet_bulk_density': (1, -3, 0), 'upper_radius_by_layer_ptr': LEN}
    have = {a.arg for a in fdrv.args.args}
    src = {k: v for k, v in src.items() if k in have}
    if len(src) < 6:
        raise AnalysisError('cf_radial_solver: the dimensional parameters of the driver were renamed; unit inference has no sources')
    nchk = unit_lint(chk, repo, 'R03.7', ms_, fdrv, src, 'cf_radial_solver, dimensional mode', assume={'nondimensionalize': False})
    if nchk < 3:
        raise AnalysisError(f'cf_radial_solver: unit inference reached only {nchk} sums / comparisons (front-end lost sight of the slice bookkeeping)')


def Gatom_hook(itp, mod, nm):
    if nm in ('G', 'G_'):
        return X.atom('Gconst', 'pos')
    return None


# ------------------------------------------------------------------------------------------------ R03.8
def call_history(chk, repo, d):
    """The (re-)non-dimensionalisation helpers are called once per solve; what they return for a planet must not depend on which planets were solved before in the
    same process (module-level caches).  Planet B is converted after planet A -- same bulk density, different radius; then different density, same radius -- in one
    interpreter (module state persists) and compared with planet B converted in a fresh one."""
    md = repo.by_path('TidalPy/utilities/dimensions/nondimensional.pyx')
    fn_ = need_func(md, 'cf_non_dimensionalize_physicals'); fr_ = need_func(md, 'cf_redimensionalize_physicals')
    names = ('radius', 'density', 'gravity', 'bulk', 'shear')

    def branch_hook(itp, st, v, fr):
        # `a == b` / `a != b` on symbolic values: equal iff identically equal (generic planets)
        if isinstance(v, X.Node) and v.op == 'cmp' and v.val in ('==', '!='):
            same = d.equal(v.args[0], v.args[1])
            return same if v.val == '==' else not same
        return None

    def convert(it, planet, which):
        R, rho, w = planet
        arrays = {nm: Arr(nm) for nm in names}
        for nm in names:
            for i in range(2): arrays[nm].store[i] = X.atom(f'{nm}{i}', 'complex' if nm == 'shear' else 'pos')
        fr0 = Frame(md, 'caller'); outs = {}
        for nm in ('R_use', 'rho_use', 'w_use', 'G_use'):
            fr0.vars[nm] = Opaque('nan'); outs[nm] = Ref(fr0, nm)
        args = [2, w, R, rho] + [arrays[nm] for nm in names] + [outs['R_use'], outs['rho_use'], outs['w_use'], outs['G_use']]
        it.call(md, fn_ if which == 'non-dimensionalise' else fr_, args)
        return {**{f'{nm}[{i}]': arrays[nm].store[i] for nm in names for i in range(2)}, **{k: fr0.vars[k] for k in outs}}
    w = X.atom('freq', 'pos')
    Ra, Rb = X.atom('R_planetA', 'pos'), X.atom('R_planetB', 'pos'); ra, rb = X.atom('rho_planetA', 'pos'), X.atom('rho_planetB', 'pos')
    for which in ('non-dimensionalise', 're-dimensionalise'):
        for lab, first, second in (('same bulk density, different radius', (Ra, ra, w), (Rb, ra, w)), ('same radius, different bulk density', (Ra, ra, w), (Ra, rb, w)),
                                   ('different radius and bulk density', (Ra, ra, w), (Rb, rb, w))):
            it = Interp(repo, hooks={'global': Gatom_hook, 'branch': branch_hook})
            convert(it, first, which)
            got = convert(it, second, which)
            ref = convert(Interp(repo, hooks={'global': Gatom_hook, 'branch': branch_hook}), second, which)
            bad = [k for k in ref if not (isinstance(got.get(k), X.Node) and isinstance(ref[k], X.Node) and d.equal(got[k], ref[k]))]
            chk.ob('R03.8', f'{which} a planet after another one ({lab}): same values as in a fresh process', not bad, f'differs in {bad[:4]}: the conversion depends on the planet solved before', md.where(fn_ if which.startswith('non') else fr_),
                   key=f'R03.8|{which}|{lab}', method='two calls in one interpreter state vs a fresh one, GF(p^2) PIT')


# ------------------------------------------------------------------------------------------------ R03.1
def roundtrip(chk, repo, d, eq):
    md = repo.by_path('TidalPy/utilities/dimensions/nondimensional.pyx')
    fn_ = need_func(md, 'cf_non_dimensionalize_physicals'); fr_ = need_func(md, 'cf_redimensionalize_physicals'); fy = need_func(md, 'cf_redimensionalize_radial_functions')
    def eq_hook(itp, st, v, fr):
        # `a == b` / `a != b` on symbolic values (cache keys): equal iff identically equal
        if isinstance(v, X.Node) and v.op == 'cmp' and v.val in ('==', '!='):
            same = d.equal(v.args[0], v.args[1])
            return same if v.val == '==' else not same
        return None
    it = Interp(repo, hooks={'global': Gatom_hook, 'branch': eq_hook})
    D = S.Dims()
    w = D.atom('freq', 'pos', s=-1); R = D.atom('Rmean', 'pos', m=1); rho = D.atom('rho_bulk', 'pos', kg=1, m=-3)
    D.d[('Gconst', 'pos')] = S.GRAV_G
    n = 3
    names = ('radius', 'density', 'gravity', 'bulk', 'shear')
    dims = {'radius': S.LENGTH, 'density': S.DENSITY, 'gravity': S.ACCEL, 'bulk': S.PRESSURE, 'shear': S.PRESSURE}
    arrays = {}
    for nm in names:
        kind = 'complex' if nm == 'shear' else 'pos'
        vals = [X.atom(f'{nm}{i}', kind) for i in range(n)]
        for i in range(n): D.d[(f'{nm}{i}', kind)] = dims[nm]
        a = Arr(nm)
        for i, v in enumerate(vals): a.store[i] = v
        arrays[nm] = (a, vals)
    fr0 = Frame(md, 'caller')
    outs = {}
    for nm in ('R_use', 'rho_use', 'w_use', 'G_use'):
        fr0.vars[nm] = Opaque('nan'); outs[nm] = Ref(fr0, nm)
    args = [n, w, R, rho] + [arrays[nm][0] for nm in names] + [outs['R_use'], outs['rho_use'], outs['w_use'], outs['G_use']]
    it.call(md, fn_, args)
    where = md.where(fn_)
    # non-dimensional values are dimensionless: invariant under unit changes
    for nm in names:
        a, vals = arrays[nm]
        for i in range(n):
            v = a.store[i]
            ok = d.equal(D.scaled(v), v)
            chk.ob('R03.1', f'non-dimensionalised {nm}[{i}] is dimensionless (invariant under changes of kg, m, s)', ok, 'conversion factor does not carry the unit of the array', where, key=f'R03.1|nondim|{nm}|{i}' if i == 0 else None,
                   method='scaling covariance, GF(p^2) PIT')
    for nm, lab in (('R_use', 'planet radius'), ('rho_use', 'bulk density'), ('w_use', 'frequency'), ('G_use', 'G')):
        v = fr0.vars[nm]
        ok = isinstance(v, X.Node) and d.equal(D.scaled(v), v)
        chk.ob('R03.1', f'non-dimensional {lab} handed to the solver is dimensionless', ok, f'{v!r}', where, method='scaling covariance, GF(p^2) PIT')
    chk.ob('R03.1', 'non-dimensional radius and bulk density are 1; non-dimensional G == G rho_bulk T^2 with T^2 = 1/(pi G rho_bulk), i.e. 1/pi', d.equal(fr0.vars['R_use'], X.ONE) and d.equal(fr0.vars['rho_use'], X.ONE)
           and d.equal(fr0.vars['G_use'], 1 / X.atom('pi', 'pos')), 'scalar outputs differ', where, method='GF(p^2) PIT')
    nd = {nm: [arrays[nm][0].store[i] for i in range(n)] for nm in names}
    it.call(md, fr_, args)
    for nm in names:
        a, vals = arrays[nm]
        for i in range(n):
            eq('R03.1', f're-dimensionalise(non-dimensionalise({nm}[{i}])) == {nm}[{i}]', a.store[i], vals[i], md.where(fr_), key=f'R03.1|roundtrip|{nm}|{i}')
    for nm, ref in (('R_use', R), ('rho_use', rho), ('w_use', w), ('G_use', X.atom('Gconst', 'pos'))):
        eq('R03.1', f're-dimensionalise restores the scalar {nm}', fr0.vars[nm], ref, md.where(fr_))
    # radial-function re-dimensionalisation: slot k gets the unit of y_k
    nsl, nsol = 3, 2
    buf = Arr('radial', default=lambda k: X.atom(f'ynd{k}', 'complex'))
    orig = {k: buf.get(k) for k in range(nsl * 6 * nsol)}
    for k, v in orig.items(): buf.store[k] = v
    it.call(md, fy, [buf, R, rho, nsl, nsol])
    ynames = ('y1', 'y2', 'y3', 'y4', 'y5', 'y6')
    for k in range(nsl * 6 * nsol):
        fac = buf.store[k] / orig[k]
        want = S.YDIM[ynames[k % 6]]
        ok = d.equal(D.scaled(fac), S.factor(want) * fac)
        if k < 6 or not ok:
            chk.ob('R03.1', f'cf_redimensionalize_radial_functions: slot {k} ({ynames[k % 6]}) is multiplied by a factor with the unit of {ynames[k % 6]}', ok, f'factor {X.show(fac)[:60]}', md.where(fy),
                   key=f'R03.1|redim-y|{k}', method='scaling covariance, GF(p^2) PIT')
    allk = all(d.equal(buf.store[k] / orig[k], buf.store[k % 6] / orig[k % 6]) for k in range(nsl * 6 * nsol))
    chk.ob('R03.1', 'cf_redimensionalize_radial_functions: the same six factors are applied to every slice and every solution type (stride 6 x num_solutions)', allk, 'factors differ between slices / solution types', md.where(fy), method='GF(p^2) PIT')


# ------------------------------------------------------------------------------------------------ R03.2
def solver_dims():
    D = S.Dims()
    P = {'r': D.atom('r', 'pos', m=1), 'rho': D.atom('rho', 'pos', kg=1, m=-3), 'g': D.atom('g', 'pos', m=1, s=-2), 'mu': D.atom('mu', 'complex', kg=1, m=-1, s=-2),
         'K': D.atom('K', 'pos', kg=1, m=-1, s=-2), 'w': D.atom('w', 'pos', s=-1), 'l': X.atom('l', 'pos'), 'fpG': D.atom('fourpiG', 'pos', m=3, kg=-1, s=-2)}
    return D, P


def ode_cov(chk, repo, d):
    mo = repo.by_path('TidalPy/RadialSolver/derivatives/odes.pyx')
    D, P = solver_dims()
    for (kind, static, incomp), cname in SM.CLASSES.items():
        names = ts72.LAYOUT[(kind, static)]
        dy, y, fnode = SM.extract_rhs(repo, mo, cname, P, len(names))
        A = SM.matrix_from(dy, len(names))
        bad = []
        for i, ni in enumerate(names):
            for j, nj in enumerate(names):
                want = S.dmul(S.dmul(S.YDIM[ni], S.YDIM[nj], -1), S.LENGTH, -1)
                if not d.equal(D.scaled(A[i][j]), S.factor(want) * A[i][j]):
                    bad.append(f'd{ni}/dr <- {nj}')
        chk.ob('R03.2', f'{cname}: every coefficient transforms as [{"y_i"}]/[{"y_j"}]/m under unit changes ({len(names) ** 2} entries)', not bad, f'inhomogeneous entries: {bad[:5]}', mo.where(fnode),
               key=f'R03.2|ode|{cname}', method='scaling covariance, GF(p^2) PIT')


def start_cov(chk, repo, d):
    pi = X.atom('pi', 'pos')
    for lval in (2, 3):
        install_rules(X.const(lval))
        D = S.Dims()
        at = {'w': D.atom('w', 'pos', s=-1), 'r': D.atom('r', 'pos', m=1), 'rho': D.atom('rho', 'pos', kg=1, m=-3), 'K': D.atom('K', 'pos', kg=1, m=-1, s=-2),
              'mu': D.atom('mu', 'complex', kg=1, m=-1, s=-2), 'l': lval, 'G': D.atom('G', 'pos', m=3, kg=-1, s=-2)}
        for (fname, file_, kind, static, incomp, nsol, plist) in FUNCS:
            m = repo.by_path(f'TidalPy/RadialSolver/starting/{file_}.pyx')
            f = need_func(m, fname)
            it = make_interp(repo)
            out = Arr('start')
            it.call(m, f, [at[p] for p in plist] + [6, out])
            names = ts72.LAYOUT[(kind, static)]
            bad = []
            for s in range(nsol):
                vec = [out.store.get(s * 6 + i) for i in range(len(names))]
                if any(v is None for v in vec):
                    bad.append(f'solution {s} incomplete'); continue
                # ratios within one solution vector must scale with the ratio of the y units (one free factor per solution)
                ref_i = next((i for i, v in enumerate(vec) if not d.is_zero(v)), None)
                if ref_i is None: continue
                for i in range(len(names)):
                    if i == ref_i: continue
                    lhs = D.scaled(vec[i]) * vec[ref_i] * S.factor(S.YDIM[names[ref_i]])
                    rhs = D.scaled(vec[ref_i]) * vec[i] * S.factor(S.YDIM[names[i]])
                    if not d.equal(lhs, rhs):
                        bad.append(f'solution {s}: {names[i]}/{names[ref_i]}')
            chk.ob('R03.2', f'{fname} (l={lval}): components of each starting vector carry the units of their y (up to one factor per solution)', not bad, f'unit-inconsistent ratios: {bad[:5]}', m.where(f),
                   key=f'R03.2|start|{fname}|{lval}', method='scaling covariance of component ratios, GF(p^2) PIT')


def iface_cov(chk, repo, d):
    mi = repo.by_path('TidalPy/RadialSolver/interfaces/interfaces.pyx')
    fup = need_func(mi, 'cf_solve_upper_y_at_interface')
    for (lk, ls) in KINDS:
        for (uk, us) in KINDS:
            D = S.Dims()
            g = D.atom('g_int', 'pos', m=1, s=-2); rho = D.atom('rho_liq', 'pos', kg=1, m=-3); G = D.atom('G', 'pos', m=3, kg=-1, s=-2)
            nl = ts72.NUM_SOLS[(lk, ls)]; nu = ts72.NUM_SOLS[(uk, us)]
            sl = SLOT[(lk, ls)]; su = SLOT[(uk, us)]
            inv_sl = {v: k for k, v in sl.items()}
            Lvals = {}
            for s in range(nl):
                for nm, i in sl.items():
                    a = X.atom(f'L{s}_{nm}', 'complex'); D.d[(f'L{s}_{nm}', 'complex')] = S.YDIM[nm]
                    Lvals[s * MAXY + i] = a
            L = Arr('lower', default=lambda k: Lvals.get(k, Opaque('nan')))
            U = Arr('upper')
            it = Interp(repo)
            it.call(mi, fup, [L, U, nl, nu, MAXY, 0 if lk == 'solid' else 1, ls, False, 0 if uk == 'solid' else 1, us, False, g, rho, G])
            bad = []
            for s in range(nu):
                vec = {nm: U.store.get(s * MAXY + i) for nm, i in su.items()}
                if any(not isinstance(v, X.Node) for v in vec.values()):
                    bad.append(f'solution {s} incomplete'); continue
                ref = next((nm for nm, v in vec.items() if not d.is_zero(v)), None)
                if ref is None: continue
                for nm, v in vec.items():
                    if nm == ref: continue
                    lhs = D.scaled(v) * vec[ref] * S.factor(S.YDIM[ref]); rhs = D.scaled(vec[ref]) * v * S.factor(S.YDIM[nm])
                    if not d.equal(lhs, rhs): bad.append(f'upper solution {s}: {nm}/{ref}')
            lab = f'lower {lk}/{"static" if ls else "dynamic"} -> upper {uk}/{"static" if us else "dynamic"}'
            chk.ob('R03.2', f'interface {lab}: starting values of the upper layer carry the units of their y', not bad, f'{bad[:4]}', mi.where(fup), key=f'R03.2|iface|{lab}', method='scaling covariance of component ratios')


def misc_cov(chk, repo, d, eq):
    # boundary values
    ms = repo.by_path('TidalPy/RadialSolver/solver.pyx')
    f = need_func(ms, 'cf_radial_solver')
    # boundary values by prefix interpretation of cf_radial_solver (independent of local names / helper extraction); the symbols carry their units
    D = S.Dims()
    vals, frp, sym = SM.solver_bc_table(repo, ('tidal', 'loading', 'free'), False)
    D.d[sym['R'].val] = S.LENGTH; D.d[sym['rho_bulk'].val] = S.DENSITY; D.d[sym['w'].val] = S.FREQ; D.d[('Gconst', 'pos')] = S.GRAV_G
    for nm_, dm_ in (('radius', S.LENGTH), ('density', S.DENSITY), ('gravity', S.ACCEL), ('bulk', S.PRESSURE), ('shear', S.PRESSURE)):
        for i_ in range(8):
            D.d[(f'{nm_}{i_}', 'complex' if nm_ == 'shear' else 'pos')] = dm_
    comp = ('y2', 'y4', 'y6')
    bad = [k for k, v in enumerate(vals) if not d.equal(D.scaled(v), S.factor(S.YDIM[comp[k % 3]]) * v)]
    chk.ob('R03.2', 'surface boundary values carry the units of (y2, y4, y6) for tidal, loading and free conditions', not bad, f'slots {bad}', ms.where(f), method='prefix interpretation + scaling covariance')
    # static-liquid surface right-hand side
    mb = repo.by_path('TidalPy/RadialSolver/boundaries/boundaries.pyx')
    fb = need_func(mb, 'cf_apply_surface_bc')
    D2 = S.Dims()
    g = D2.atom('g_surf', 'pos', m=1, s=-2); G = D2.atom('G', 'pos', m=3, kg=-1, s=-2)
    bcv = [D2.atom('bc_y2', 'real', kg=1, m=-3), D2.atom('bc_y4', 'real', kg=1, m=-3), D2.atom('bc_y6', 'real', m=-1)]
    bca = Arr('bc', default=lambda k: bcv[k % 3])
    cvec = Arr('c'); info = Ref(Frame(mb, 'c'), 'i'); info.frame.vars['i'] = 0
    itb = Interp(repo, hooks={'call': lambda itp, fn_, a, k, e, fr_: (None if 'cython_lapack' in str(getattr(fn_, 'name', '')) else NotImplemented)})
    itb.call(mb, fb, [cvec, info, bca, Arr('y', default=lambda k: X.atom(f'Y{k}', 'complex')), g, G, 1, 6, 0, 1, True, False])
    v = cvec.store[0]
    chk.ob('R03.2', 'static-liquid surface condition y7 = y6 + (4 pi G / g) y2 is dimensionally homogeneous [1/m]', isinstance(v, X.Node) and d.equal(D2.scaled(v), S.factor(S.YDIM['y7']) * v), f'{v!r}', mb.where(fb),
           method='scaling covariance')
    # collapse: y3 of a dynamic liquid layer
    mc = repo.by_path('TidalPy/RadialSolver/collapse/collapse.pyx')
    fc = need_func(mc, 'cf_collapse_layer_solution')
    D3 = S.Dims()
    w = D3.atom('w', 'pos', s=-1)
    nsl = 2
    rad = Arr('r', default=lambda k: D3.atom(f'r{k}', 'pos', m=1)); den = Arr('rho', default=lambda k: D3.atom(f'rho{k}', 'pos', kg=1, m=-3)); grv = Arr('g', default=lambda k: D3.atom(f'g{k}', 'pos', m=1, s=-2))
    lay = ('y1', 'y2', 'y5', 'y6')
    sols = []
    for s in range(2):
        a = Arr(f'sol{s}', default=lambda k, s=s: D3.atom(f's{s}_{k // 4}_{lay[k % 4]}', 'complex', **{u: e for u, e in S.YDIM[lay[k % 4]].items()}))
        sols.append(a)
    storage = Arr('storage', default=lambda k: sols[k])
    cv = Arr('c', default=lambda k: X.atom(f'C{k}', 'complex'))
    solution = Arr('solution', default=lambda k: Opaque('nan'))
    itc = Interp(repo)
    itc.call(mc, fc, [solution, cv, storage, rad, den, grv, w, 0, nsl, 2, 6, 4, 6, 0, 1, False, False])
    names6 = ('y1', 'y2', 'y3', 'y4', 'y5', 'y6')
    bad = []
    for k, v in sorted(solution.store.items()):
        nm = names6[k % 6]
        if isinstance(v, X.Node) and not d.equal(D3.scaled(v), S.factor(S.YDIM[nm]) * v):
            bad.append(f'slot {k} ({nm})')
    have_y3 = all((sl * 6 + 2) in solution.store for sl in range(nsl))
    chk.ob('R03.2', 'collapse of a dynamic-liquid layer: output slots (incl. the reconstructed y3) carry the units of y1..y6', not bad and have_y3, f'{bad} y3 written: {have_y3}', mc.where(fc), method='scaling covariance')
    # y3 formula itself == reference elimination
    P = SM.params();
    for sl in range(nsl):
        y1 = solution.store[sl * 6 + 0]; y2 = solution.store[sl * 6 + 1]; y5 = solution.store[sl * 6 + 4]
        Pk = {'r': rad.get(sl), 'rho': den.get(sl), 'g': grv.get(sl), 'w': w}
        eq('R03.2', f'collapse slice {sl}: y3 == (rho g y1 - y2 - rho y5)/(w^2 rho r) (the elimination used by the liquid ODEs)', solution.store[sl * 6 + 2], ts72.liquid_dynamic_y3(y1, y2, y5, Pk), mc.where(fc))
    # collapse for every layer kind: output column of y_name == sum_s C_s * (stored solution s)[slot of y_name in that kind's layout]; units follow
    for (kind, static) in (('solid', False), ('liquid', False), ('liquid', True)):
        layk = ts72.LAYOUT[(kind, static)]; nys = len(layk); nsol = ts72.NUM_SOLS[(kind, static)]
        D5 = S.Dims()
        w5 = D5.atom('w', 'pos', s=-1)
        rad5 = Arr('r', default=lambda k: D5.atom(f'r{k}', 'pos', m=1)); den5 = Arr('rho', default=lambda k: D5.atom(f'rho{k}', 'pos', kg=1, m=-3)); grv5 = Arr('g', default=lambda k: D5.atom(f'g{k}', 'pos', m=1, s=-2))
        sols5 = [Arr(f'sol{s_}', default=lambda k, s_=s_: D5.atom(f's{s_}_{k // nys}_{layk[k % nys]}', 'complex', **{u: e_ for u, e_ in S.YDIM[layk[k % nys]].items()})) for s_ in range(nsol)]
        storage5 = Arr('storage', default=lambda k: sols5[k])
        cv5 = Arr('c', default=lambda k: X.atom(f'C{k}', 'complex'))
        out5 = Arr('solution', default=lambda k: Opaque('nan'))
        Interp(repo).call(mc, fc, [out5, cv5, storage5, rad5, den5, grv5, w5, 0, 2, nsol, 6, nys, 6, 0, 0 if kind == 'solid' else 1, static, False])
        lab = f'{kind}{" static" if static else (" dynamic" if kind == "liquid" else "")}'
        bad = []
        for sl in range(2):
            for j, nm in enumerate(names6):
                v = out5.store.get(sl * 6 + j)
                if nm in layk:
                    ref = X.ZERO
                    for s_ in range(nsol):
                        ref = ref + cv5.get(s_) * sols5[s_].get(sl * nys + layk.index(nm))
                    if not isinstance(v, X.Node) or not d.equal(v, ref):
                        bad.append(f'slice {sl}: {nm} is not sum_s C_s * stored {nm} (slot {layk.index(nm)})')
                    elif not d.equal(D5.scaled(v), S.factor(S.YDIM[nm]) * v):
                        bad.append(f'slice {sl}: {nm} does not carry the unit of {nm}')
                elif isinstance(v, X.Node) and not (kind == 'liquid' and not static and nm == 'y3'):
                    bad.append(f'slice {sl}: {nm} is given a value although a {lab} layer does not carry it')
        chk.ob('R03.3', f'collapse of a {lab} layer: each output column y_k is the combination of the stored component of the same name (layout {layk}), with its unit', not bad, '; '.join(bad[:3]),
               mc.where(fc), key=f'R03.3|collapse|{lab}', method='interpretation + GF(p^2) PIT + scaling covariance')
    # love numbers are dimensionless
    ml = repo.by_path('TidalPy/RadialSolver/love.pyx')
    fl = need_func(ml, 'find_love_cf')
    D4 = S.Dims()
    ys = [D4.atom(f'ys_{nm}', 'complex', **{u: e for u, e in S.YDIM[nm].items()}) for nm in names6]
    out = Arr('love')
    Interp(repo).call(ml, fl, [out, Arr('s', default=lambda k: ys[k]), D4.atom('gs', 'pos', m=1, s=-2)])
    bad = [k for k, v in out.store.items() if not d.equal(D4.scaled(v), v)]
    chk.ob('R03.2', 'k, h, l are dimensionless combinations of the surface values', not bad and len(out.store) == 3, f'{bad}', ml.where(fl), method='scaling covariance')


# ------------------------------------------------------------------------------------------------ R03.3
def layout(chk, repo, d, eq):
    ms = repo.by_path('TidalPy/RadialSolver/solver.pyx')
    f = need_func(ms, 'cf_radial_solver')
    Sx = X.atom('slice_index', 'pos'); T = X.atom('ytype', 'pos'); k = X.atom('y_index', 'pos'); N = X.atom('num_ytypes', 'pos')
    canonical = Sx * (6 * N) + T * 6 + k
    it = Interp(repo)
    # writer: collapse
    mc = repo.by_path('TidalPy/RadialSolver/collapse/collapse.pyx')
    fc = need_func(mc, 'cf_collapse_layer_solution')
    # decided by interpretation (independent of how the function names its index variables): with 2 solution types in the buffer, the collapse of type t writes
    # exactly the elements slice*(6*2) + t*6 + y of its slices
    okw = True; whyw = ''
    for (kind_, static_) in (('solid', False), ('liquid', False), ('liquid', True)):
        layk = ts72.LAYOUT[(kind_, static_)]; nys_ = len(layk); nsol_ = ts72.NUM_SOLS[(kind_, static_)]
        for t_ in (0, 1):
            sols_ = [Arr(f'sol{s_}', default=lambda k_, s_=s_: X.atom(f'w{s_}_{k_}', 'complex')) for s_ in range(nsol_)]
            outw = Arr('solution', default=lambda k: Opaque('nan'))
            Interp(repo).call(mc, fc, [outw, Arr('c', default=lambda k_: X.atom(f'C{k_}', 'complex')), Arr('storage', default=lambda k_: sols_[k_]),
                                       Arr('r', default=lambda k_: X.atom(f'r{k_}', 'pos')), Arr('rho', default=lambda k_: X.atom(f'rho{k_}', 'pos')), Arr('g', default=lambda k_: X.atom(f'g{k_}', 'pos')),
                                       X.atom('w', 'pos'), 0, 3, nsol_, 6, nys_, 12, t_, 0 if kind_ == 'solid' else 1, static_, False])
            written = sorted(k_ for k_, v_ in outw.store.items())
            allowed = {sl_ * 12 + t_ * 6 + j_ for sl_ in range(3) for j_ in range(6)}
            carried = {sl_ * 12 + t_ * 6 + j_ for sl_ in range(3) for j_, nm_ in enumerate(('y1', 'y2', 'y3', 'y4', 'y5', 'y6')) if nm_ in layk}
            numeric = {k_ for k_, v_ in outw.store.items() if isinstance(v_, X.Node)}
            if not set(written) <= allowed or not carried <= numeric:
                okw = False
                whyw += f'{kind_}{" static" if static_ else ""}, type {t_}: writes {sorted(set(written) - allowed)[:4]} outside its block, misses {sorted(carried - numeric)[:4]}; '
    chk.ob('R03.3', 'writer (collapse): element (slice, type, y) is stored at slice*(6*num_ytypes) + type*6 + y, nothing outside the block of its solution type', okw, whyw, mc.where(fc),
           method='interpretation on a 3-slice, 2-type buffer')
    # solver passes num_output_ys = MAX_NUM_Y * num_ytypes
    nout = [n for n in ast.walk(f) if isinstance(n, ast.Assign) and ast.unparse(n.targets[0]) == 'num_output_ys']
    frs = Frame(ms, 'cf_radial_solver'); frs.vars.update({'num_ytypes': N})
    chk.ob('R03.3', 'cf_radial_solver: num_output_ys == MAX_NUM_Y * num_ytypes with MAX_NUM_Y == 6', bool(nout) and d.equal(it.eval(nout[0].value, frs), 6 * N), 'stride differs', ms.where(nout[0]) if nout else ms.rel(),
           method='index polynomial identity')
    # reader: re-dimensionalisation
    md = repo.by_path('TidalPy/utilities/dimensions/nondimensional.pyx')
    fy = need_func(md, 'cf_redimensionalize_radial_functions')
    # decided by interpretation, independent of how the function walks the buffer: on a (3 slices x 3 types) buffer exactly the elements slice*(6*3) + type*6 + y are
    # rescaled, each by the factor of y (the factors themselves are R03.1's business)
    bufr = Arr('radial', default=lambda k: X.atom(f'ynd{k}', 'complex'))
    nsl_, nty_ = 3, 2      # deliberately different: a transposed stride must not address the same set of elements
    orig_ = {k: bufr.get(k) for k in range(nsl_ * 6 * nty_)}
    for k, v in orig_.items(): bufr.store[k] = v
    Rr = X.atom('Rmean', 'pos'); rhor = X.atom('rho_bulk', 'pos')
    Interp(repo, hooks={'global': Gatom_hook}).call(md, fy, [bufr, Rr, rhor, nsl_, nty_])
    badr = []
    extra = sorted(k for k in bufr.store if k not in orig_)
    for k in range(nsl_ * 6 * nty_):
        if not d.equal(bufr.store[k] / orig_[k], bufr.store[k % 6] / orig_[k % 6]):
            badr.append(f'element {k} (slice {k // (6 * nty_)}, type {(k // 6) % nty_}, y{k % 6 + 1})')
    chk.ob('R03.3', 'reader (re-dimensionalisation): element slice*(6*num_solutions) + type*6 + y is rescaled as y of every slice and every solution type, nothing else is touched', not badr and not extra,
           f'not rescaled like the first type: {badr[:4]}' + (f'; writes outside the buffer: {extra[:4]}' if extra else ''), md.where(fy), method='interpretation on a 3x3 buffer + GF(p^2) PIT')
    # the driver re-dimensionalises the whole returned solution: observed on the whole-function symbolic execution (values, not names, of the arguments)
    from . import solver_run as SRun
    rr = SRun.run_solver(repo, ('solid', 'solid'), ('tidal', 'loading'), True)
    okc = False; detail = f'{len(rr.redim_calls)} calls'
    if len(rr.redim_calls) == 1 and rr.solution_obj is not None:
        bnd = list(rr.redim_calls[0].values())
        sol_arr = rr.solution_obj.attrs['full_solution_ptr']
        vals_ok = len(bnd) >= 5 and (bnd[0] is sol_arr or getattr(bnd[0], 'base', None) is sol_arr.base) and isinstance(bnd[1], X.Node) and d.equal(bnd[1], rr.R) \
            and isinstance(bnd[2], X.Node) and d.equal(bnd[2], rr.sym['rho_bulk']) and bnd[3] == rr.total and bnd[4] == 2
        okc = bool(vals_ok); detail = 'arguments: ' + ', '.join(X.show(v)[:20] if isinstance(v, X.Node) else repr(v)[:30] for v in bnd[:5])
    chk.ob('R03.3', 'cf_radial_solver re-dimensionalises the whole returned solution once, with (planet radius, bulk density, number of slices, number of solution types)', okc, detail, ms.where(f),
           method='recorded call arguments of the whole-function symbolic execution')
    # reader: Python accessors (structure of the reshape / slice, tolerant to spelling)
    cls = need_class(ms, 'RadialSolverSolution')
    mm = methods(cls)

    def mentions(e, *names):
        txt = ast.unparse(e)
        return all(n_ in txt for n_ in names)
    ok_res = False
    if 'result' in mm:
        for n_ in ast.walk(mm['result']):
            if isinstance(n_, ast.Attribute) and n_.attr == 'T' and isinstance(n_.value, ast.Call) and isinstance(n_.value.func, ast.Attribute) and n_.value.func.attr == 'reshape':
                shp = n_.value.args[0] if n_.value.args else None
                if isinstance(shp, ast.Tuple) and len(shp.elts) == 2 and mentions(shp.elts[0], 'num_slices') and mentions(shp.elts[1], 'num_ytypes', 'MAX_NUM_Y'):
                    ok_res = True
    ok_get = False
    if '__getitem__' in mm:
        for n_ in ast.walk(mm['__getitem__']):
            if isinstance(n_, ast.Slice) and n_.lower is not None and n_.upper is not None and mentions(n_.lower, 'MAX_NUM_Y') and mentions(n_.upper, 'MAX_NUM_Y', '1'):
                ok_get = True
    chk.ob('R03.3', 'reader (result / __getitem__): the flat buffer is viewed as (num_slices, num_ytypes*6) transposed, and type t is rows 6t .. 6(t+1)', ok_res and ok_get,
           f'reshape((num_slices, num_ytypes*MAX_NUM_Y)).T found: {ok_res}; slice MAX_NUM_Y*t : MAX_NUM_Y*(t+1) found: {ok_get}', ms.where(mm['result']) if 'result' in mm else ms.rel(), method='AST structure')
    tot = [n for n in ast.walk(mm['__init__']) if isinstance(n, ast.Assign) and ast.unparse(n.targets[0]) == 'self.total_size'] if '__init__' in mm else []
    chk.ob('R03.3', 'solution buffer holds MAX_NUM_Y * num_slices * num_ytypes values', bool(tot) and mentions(tot[0].value, 'MAX_NUM_Y', 'num_slices', 'num_ytypes') and all(isinstance(o_, ast.Mult) for o_ in
           [x.op for x in ast.walk(tot[0].value) if isinstance(x, ast.BinOp)]), 'size expression differs', ms.where(tot[0]) if tot else ms.rel(), method='AST structure')


# ------------------------------------------------------------------------------------------------ R03.3 readers of the Love-number buffer
def love_readers(chk, repo):
    """`.love`, `.k`, `.h`, `.l` of the solution object read the buffer the driver fills at 3 * type + (0, 1, 2): interpreted on a buffer of distinct symbols for 1, 2 and 3
    requested types (the interpreter's numpy vectors model slicing, reshape and transpose), love[t] must be (k_t, h_t, l_t) and k[t], h[t], l[t] the three entries of type t."""
    from ..core.interp import Vec, Obj, RaiseSignal
    ms = repo.by_path('TidalPy/RadialSolver/solver.pyx')
    cls = need_class(ms, 'RadialSolverSolution')
    mm = methods(cls)
    for name in ('love', 'k', 'h', 'l'):
        if name not in mm:
            raise AnalysisError(f'RadialSolverSolution.{name} vanished')

    def names(v):
        if isinstance(v, (Vec, list, tuple)): return [names(x_) for x_ in v]
        v = getattr(v, 'v', v)
        return v.val[0] if isinstance(v, X.Node) and v.op == 'atom' else repr(v)
    for nyt in (1, 2, 3):
        toks = Vec([X.atom(f'{"khl"[i % 3]}[type {i // 3}]', 'complex') for i in range(3 * nyt)])       # what the driver stores at 3 * type + i
        bad = []
        for nm in ('love', 'k', 'h', 'l'):
            o = Obj(cls=('class', ms, cls), name='solution', attrs={'complex_love_view': toks, 'complex_love_ptr': toks, 'num_ytypes': nyt, 'success': True})
            try:
                got = names(Interp(repo, max_depth=6).call(ms, mm[nm], [], {}, self_obj=o))
            except RaiseSignal as ex:
                bad.append(f'.{nm} raises {ex.text[:80]}'); continue
            want = [[f'{c}[type {t}]' for c in 'khl'] for t in range(nyt)] if nm == 'love' else [f'{nm}[type {t}]' for t in range(nyt)]
            if got != want:
                bad.append(f'.{nm} is {got}' + (', expected one row (k, h, l) per requested type' if nm == 'love' else ''))
        chk.ob('R03.3', f'readers .love / .k / .h / .l with {nyt} requested type(s): love[t] == (k, h, l) of type t and k[t], h[t], l[t] are the entries 3t, 3t+1, 3t+2 the driver fills', not bad, '; '.join(bad[:3]),
               ms.where(mm['love']), key=f'R03.3|love-readers|{nyt}', method='accessors interpreted on a buffer of distinct symbols (numpy slicing / reshape / transpose modelled)')


# ------------------------------------------------------------------------------------------------ R03.5 reciprocity (Saito-Molodensky)
def reciprocity(chk, repo, d):
    """k_load = k_tidal - h_tidal, proved at formula level from the repository's own pieces:
      (a) every ODE class conserves the bilinear concomitant W(y, z) of two solutions (C01 R01.9; re-evaluated here);
      (b) W is continuous across internal interfaces under the interface conditions the solver imposes (C02 R02.4 shows the code imposes them):
          solid/solid: all six y continuous; solid/dynamic liquid: y1, y2, y5, y6 continuous and y4 = 0 on the solid side;
          static liquid: y5 continuous, y7 = y6 + (4 pi G / g) y2, y2 = rho (g y1 - y5) on the other side;
      (c) W(tidal solution, loading solution) at the surface, with the boundary vectors of the solver's table and the Love numbers as find_love_cf extracts them,
          equals (2l+1) R / (4 pi G) * [k_tidal - h_tidal - k_load] when g_surface = 4 pi G rho_bulk R / 3 (rho_bulk is the body's mean density).
    W vanishes at the centre for regular solutions, hence it vanishes at the surface."""
    mo = repo.by_path('TidalPy/RadialSolver/derivatives/odes.pyx')
    P = SM.params(); P['K'] = X.atom('Kc', 'complex')
    for (kind, static, incomp), cname in SM.CLASSES.items():
        names = ts72.LAYOUT[(kind, static)]; n = len(names)
        dy, y, fnode = SM.extract_rhs(repo, mo, cname, P, n)
        A = SM.matrix_from(dy, n)
        bad = SM.symplectic_defect(A, SM.symplectic_form(names, P), n, d, names)
        chk.ob('R03.5', f'{cname}: W(tidal, loading) is constant along the radius inside a layer of this kind', not bad, f'entries of Omega\' + A^T Omega + Omega A that do not vanish: {bad[:6]}',
               mo.where(fnode), key=f'R03.5|conserved|{cname}', method='symbolic differentiation + GF(p^2) PIT')
    # (b) interface continuity of W
    r = P['r']; fpG = P['fpG']; l = P['l']; L = l * (l + 1)
    g = X.atom('g_interface', 'pos'); rho = X.atom('rho_liquid', 'pos')
    Y = {nm: X.atom(f'Y_{nm}', 'complex') for nm in ('y1', 'y2', 'y3', 'y4', 'y5', 'y6')}
    Z = {nm: X.atom(f'Z_{nm}', 'complex') for nm in ('y1', 'y2', 'y3', 'y4', 'y5', 'y6')}

    def W(a, b, names):
        Om = SM.symplectic_form(names, P)
        acc = X.ZERO
        for i, ni in enumerate(names):
            for j, nj in enumerate(names):
                acc = acc + a[ni] * Om[i][j] * b[nj]
        return acc
    solid = ts72.LAYOUT[('solid', False)]; liqd = ts72.LAYOUT[('liquid', False)]; liqs = ts72.LAYOUT[('liquid', True)]
    # solid | dynamic liquid: y4 = 0 on the solid side, y1 y2 y5 y6 continuous
    Ys = dict(Y); Zs = dict(Z); Ys['y4'] = X.ZERO; Zs['y4'] = X.ZERO
    ok = d.equal(W(Ys, Zs, solid), W(Y, Z, liqd))
    chk.ob('R03.5', 'W is continuous across a solid / dynamic-liquid interface (y1, y2, y5, y6 continuous, zero shear on the solid side)', ok, 'differs', 'TidalPy/RadialSolver/interfaces/', method='GF(p^2) PIT')
    # X | static liquid: on the non-static side y2 = rho (g y1 - y5) (and y4 = 0 if solid); y7 = y6 + (4 pi G / g) y2; y5 continuous
    for other, lab in ((solid, 'solid'), (liqd, 'dynamic liquid')):
        Yo = dict(Y); Zo = dict(Z)
        Yo['y2'] = rho * (g * Y['y1'] - Y['y5']); Zo['y2'] = rho * (g * Z['y1'] - Z['y5'])
        Yo['y4'] = X.ZERO; Zo['y4'] = X.ZERO
        Yst = {'y5': Y['y5'], 'y7': Y['y6'] + fpG / g * Yo['y2']}; Zst = {'y5': Z['y5'], 'y7': Z['y6'] + fpG / g * Zo['y2']}
        ok = d.equal(W(Yo, Zo, other), W(Yst, Zst, liqs))
        chk.ob('R03.5', f'W is continuous across a {lab} / static-liquid interface (y5 continuous, y7 = y6 + (4 pi G / g) y2, y2 = rho (g y1 - y5))', ok, 'differs', 'TidalPy/RadialSolver/interfaces/', method='GF(p^2) PIT')
    # (c) surface: boundary vectors from the solver's table, Love numbers from find_love_cf
    ms = repo.by_path('TidalPy/RadialSolver/solver.pyx')
    f = need_func(ms, 'cf_radial_solver')
    bcvals, frp, sym = SM.solver_bc_table(repo, ('tidal', 'loading'), False)
    R = sym['R']; rb = sym['rho_bulk']; ld = sym['l']

    class _BC:          # the six values, addressed like the former fragment's store map
        store = dict(enumerate(bcvals))
    bc = _BC
    node = f
    ml = repo.by_path('TidalPy/RadialSolver/love.pyx'); fl = need_func(ml, 'find_love_cf')
    gs = X.atom('g_surface', 'pos')

    def surface_solution(tag, b):
        ys = {'y1': X.atom(f'{tag}_y1', 'complex'), 'y2': b[0], 'y3': X.atom(f'{tag}_y3', 'complex'), 'y4': b[1], 'y5': X.atom(f'{tag}_y5', 'complex'), 'y6': b[2]}
        out = Arr('love')
        Interp(repo).call(ml, fl, [out, Arr('s', default=lambda k, ys=ys: ys[solid[k]]), gs])
        return ys, out.store[0], out.store[1]
    yt, k_t, h_t = surface_solution('tidal', [bc.store[0], bc.store[1], bc.store[2]])
    zl, k_l, h_l = surface_solution('load', [bc.store[3], bc.store[4], bc.store[5]])
    Ps = dict(P); Ps['r'] = R; Ps['l'] = ld
    Om = SM.symplectic_form(solid, Ps)
    Ws = X.ZERO
    for i, ni in enumerate(solid):
        for j, nj in enumerate(solid):
            Ws = Ws + yt[ni] * Om[i][j] * zl[nj]
    Ws = X.subst(Ws, {'g_surface': fpG * rb * R / 3})
    ref = X.subst((2 * ld + 1) * R / fpG * (k_t - h_t - k_l), {'g_surface': fpG * rb * R / 3})
    ok = d.equal(Ws, ref)
    chk.ob('R03.5', 'W(tidal, loading) at the surface == (2l+1) R / (4 pi G) * [k_tidal - h_tidal - k_load] with the solver\'s boundary vectors and Love-number extraction (g_surface = 4 pi G rho_bulk R / 3), '
           'so W = 0 gives the Saito-Molodensky relation', ok, '' if ok else d.describe(Ws, ref), ms.where(node), key='R03.5|surface', method='fragment interpretation + GF(p^2) PIT')
    chk.assume('R03.5: regular solutions (W -> 0 at the centre); rho_bulk is the mean density of the body (g_surface = 4 pi G rho_bulk R / 3); both solution types share density, gravity, moduli and frequency (they do: one set of integrated solutions, R03.3)')
