"""C01 — Love numbers of a uniform body equal the closed form: the formula-level chain behind it."""
from __future__ import annotations
import ast
from ..core import expr as X, ratfunc as R
from ..core.interp import Interp, Obj, Arr, FuncRef, Opaque
from ..core.report import AnalysisError
from ..frontend.pyfront import Repo
from ..oracles import ts72
from .common import need_func, need_class, methods, make_eq
from . import solver_model as SM

LEVEL = 'other'
TECHNIQUE = 'abstract interpretation of the eight ODE classes into coefficient matrices over symbolic (r, rho, g, mu, K, omega, l, 4piG); entry-wise polynomial identity with the Takeuchi-Saito/Kamata/Saito reference systems; sibling limits by rational-function limits; dispatch tables by partial evaluation; Love-number extraction by interpretation; conservation of the bilinear concomitant (symplectic structure) of every class; the same obligations on the interpreted sibling solver (derivative kernels, dispatch, propagator matrices); derivation of the Kelvin closed form from exact closed-form solutions of the implemented equations by a symbolic Cramer solve of the surface system; whole-function symbolic execution of cf_radial_solver (integration, starting vectors, zgesv and heap abstracted by contract) for the Love numbers, the surface condition and the span of the assembled solution; the layer solver built through cf_build_solver with its real update_interp (CyRK interpolation by contract); recorded arguments of the calls that wire the pieces together (cf_build_solver, the Python entry point); declared C integer widths of loop indices against their bounds'
LEVEL_TEXT = ('Decided exactly (R01.10): for l = 2..4 (thorough: up to 10) and complex rigidity, the exact regular solutions of the system the solver integrates for a homogeneous incompressible static sphere, combined by the solver\'s surface condition and read by its Love-number extraction, give k, h, l of the Kelvin closed form. What is not decided is that the numerical integration converges to those exact solutions. Also decided, for all classes, is the formula-level chain the general case rests on: the equations integrated are the '
              'published ones for every (layer kind, static, incompressible) class, the classes agree with each other in their limits, every dispatcher selects the class / solution count / layout of the same assumption set, '
              'and the Love numbers are read from the right slots of the surface row (with C04: the starting vectors solve these equations; with C02: the surface system is the requested one).')
LEVEL_NOTE = ('Trusted: Cython-subset front-end, interpreter, our transcription of TS72 eq. 82 / KMN15 eqs. 4-14 / S74 eq. 18 (cross-validated by the sibling limits and by C04, whose independently transcribed '
              'starting solutions must be flow-invariant under these matrices). Not decided: convergence of CyRK to tolerance, hence the numerical closed-form equality.')
EXPLANATION = ('R01.1 coefficient matrices == reference (linearity shown first); R01.2 sibling limits (static = dynamic at omega=0; incompressible = compressible as K -> inf); '
               'R01.3 dispatch agreement (class, number of solutions, number of ys); R01.5 Love extraction (k, h, l) = (y5 - 1, g y1, g y3) of the surface row; R01.7/R01.8 the interpreted sibling solver and its propagator matrices against the same references; R01.9 every class conserves the bilinear concomitant of two solutions; R01.10 Kelvin closed form from exact solutions; R01.11 on the executed driver the stored Love numbers are find_love_cf of the assembled surface row of their own solution type; R01.12 the assembled solution of every layer lies in the span of the integrated solutions of that layer; R01.13 material wiring: the solver object cf_build_solver builds, with its real update_interp, integrates the reference system with every property interpolated from its own array; R01.14 the driver hands cf_build_solver the slices of its own arrays that belong to the layer; R01.15 the Python entry point hands every argument to the like-named parameter of the compiled driver; R01.16 the assembled solution the Love numbers are read from meets the requested surface condition (dimensional and non-dimensionalised runs); R01.17 no loop index of the solver is narrower than its bound.')


TECHNIQUE += '; readers of the Love-number buffer (.love, .k, .h, .l) evaluated on a buffer of distinct tokens'

EXPLANATION += ' R01.19 the accessors .love / .k / .h / .l hand back, for every requested type, the three numbers the driver stored for that type.'
EXPLANATION += ' R01.20 the boundary-condition table of the default request (solve_for=None) and of "tidal" hold the published surface values (C02\'s table rule carried over by alias); R01.17 also: no negation of an unsigned counter.'

EXPLANATION += ' R01.17 also: a typed integer variable used as an offset inside a subscript is at least as wide as the integers it is computed from (a narrower one addresses another element once the value exceeds its range).'
def run(chk):
    repo = Repo(chk.repo)
    mo = repo.by_path('TidalPy/RadialSolver/derivatives/odes.pyx')
    P = SM.params()
    d = X.Decider(seed=chk.seed, k=3 if chk.tier == 'quick' else 10)
    eq = make_eq(chk, d)
    mats = {}
    for (kind, static, incomp), cname in SM.CLASSES.items():
        names = ts72.LAYOUT[(kind, static)]
        nys = len(names)
        dy, y, fnode = SM.extract_rhs(repo, mo, cname, P, nys)
        where = mo.where(fnode)
        A = SM.matrix_from(dy, nys)
        # linearity: dy(y) == sum_j A_ij y_j
        lin_bad = []
        for i in range(nys):
            s = X.ZERO
            for j in range(nys):
                s = s + A[i][j] * y[j]
            if not d.equal(dy[i], s):
                lin_bad.append(names[i])
        chk.ob('R01.1', f'{cname}: right-hand side is linear and homogeneous in the y vector', not lin_bad, f'non-linear rows: d{lin_bad}', where, method='GF(p^2) PIT')
        yref = [X.atom(f'Y{k}', 'complex') for k in range(nys)]
        ref = ts72.reference_rhs(kind, static, incomp, yref, P)
        for i in range(nys):
            for j in range(nys):
                sub = {f'Y{k}': (X.ONE if k == j else X.ZERO) for k in range(nys)}
                rij = X.subst(ref[i], sub)
                ok = d.equal(A[i][j], rij)
                chk.ob('R01.1', f'{cname}: coefficient d{names[i]}/dr <- {names[j]}', ok, '' if ok else f'code {X.show(A[i][j])[:70]} vs reference: {d.describe(A[i][j], rij)}', where,
                       key=f'R01.1|{cname}|d{names[i]}|{names[j]}', method='GF(p^2) PIT')
        mats[(kind, static, incomp)] = (A, names, where, cname)
        chk.note_analysed('classes', f'{cname}: {nys}x{nys} matrix')
    # ---- R01.2 sibling limits
    for kind in ('solid', 'liquid'):
        for incomp in (False, True):
            Ad, names, where, cname = mats[(kind, False, incomp)]
            As, names_s, where_s, cname_s = mats[(kind, True, incomp)]
            if kind == 'solid':
                d0 = X.Decider(seed=chk.seed + 1, k=3, pins={'w': 0})
                bad = [f'd{names[i]}<-{names[j]}' for i in range(6) for j in range(6) if not d0.equal(Ad[i][j], As[i][j])]
                chk.ob('R01.2', f'{cname_s} == {cname} at omega = 0', not bad, f'entries differ: {bad[:4]}', where_s, method='pinned GF(p^2) PIT')
        # incompressible = limit K -> infinity of compressible (entry-wise rational limits)
        for static in (False, True):
            if kind == 'liquid' and static:
                Ac = mats[(kind, True, False)][0]; Ai = mats[(kind, True, True)][0]
                bad = [1 for i in range(2) for j in range(2) if not d.equal(Ac[i][j], Ai[i][j])]
                chk.ob('R01.2', 'LiquidStaticIncompressible == LiquidStaticCompressible (no modulus enters the static liquid system)', not bad, 'entries differ', mats[(kind, True, True)][2], method='GF(p^2) PIT')
                continue
            Ac, names, where_c, cname_c = mats[(kind, static, False)]
            Ai, _, where_i, cname_i = mats[(kind, static, True)]
            bad = []
            for i in range(len(names)):
                for j in range(len(names)):
                    lim = R.limit(Ac[i][j], P['K'], 'inf')
                    if lim[0] == 'zero': ok = d.is_zero(Ai[i][j])
                    elif lim[0] == 'finite': ok = R.frac_equal(lim[1], Ai[i][j])
                    else: ok = False
                    if not ok: bad.append(f'd{names[i]}<-{names[j]} (limit {lim[0]})')
            chk.ob('R01.2', f'{cname_i} == limit of {cname_c} as K -> infinity', not bad, f'entries differ: {bad[:4]}', where_i, method='leading-coefficient limit of rational functions')
    # liquid dynamic == solid dynamic with mu -> 0 restricted to (y1,y2,y5,y6) after eliminating y3 (y4 = 0): checked through the reference construction (ts72) -- the
    # reference liquid system is itself the mu -> 0 reduction; see oracle docstring.

    # ---- R01.9 structure of the equations, independent of any transcribed reference: every class conserves the bilinear concomitant
    #      W(y,z) = r^2 [y1 z2 - y2 z1 + l(l+1)(y3 z4 - y4 z3) + (y5 z6 - y6 z5)/(4 pi G)]  (static liquid: r^2 (y5 z7 - y7 z5)/(4 pi G)) for complex moduli:
    #      Omega' + A^T Omega + Omega A == 0.  (This is what makes reciprocity, C03, and the energy theorem, C05, hold.)
    Pc = SM.params(); Pc['K'] = X.atom('Kc', 'complex')
    for (kind, static, incomp), cname in SM.CLASSES.items():
        names = ts72.LAYOUT[(kind, static)]; nys = len(names)
        dyc, yc, fnode = SM.extract_rhs(repo, mo, cname, Pc, nys)
        Ac = SM.matrix_from(dyc, nys)
        bad = SM.symplectic_defect(Ac, SM.symplectic_form(names, Pc), nys, d, names)
        chk.ob('R01.9', f'{cname}: the system conserves the bilinear concomitant W(y, z) of two solutions (Omega\' + A^T Omega + Omega A == 0, complex moduli)', not bad,
               f'entries that do not vanish: {bad[:6]}', mo.where(fnode), key=f'R01.9|{cname}', method='symbolic differentiation + GF(p^2) PIT')
    chk.floor('R01.9', 8)
    # ---- R01.7 sibling implementation (interpreted solver package): same reference systems
    from . import legacy_solver
    legacy_solver.derivatives(chk, repo, d, 'R01.7')
    legacy_solver.dispatch(chk, repo, d, 'R01.7')
    legacy_solver.love(chk, repo, d, 'R01.7')
    # ---- R01.8 the propagator-matrix solver of the same package (incompressible static solid shells)
    legacy_solver.fundamental(chk, repo, 'R01.8', chk.seed, chk.tier)
    chk.floor('R01.8', 13)
    # ---- R01.10 the closed form itself, from exact solutions of the implemented equations
    legacy_solver.kelvin_from_exact_solutions(chk, repo, 'R01.10', chk.seed, chk.tier)
    chk.floor('R01.10', 9)
    chk.floor('R01.7', 8 + 184 + 8 + 1)
    # ---- R01.3 dispatch agreement
    dispatch(chk, repo, mo, mats)
    # ---- R01.5 Love extraction
    love(chk, repo, d, eq)
    # ---- R01.13 material wiring: the solver object built by cf_build_solver (class selection, __init__, install_pointers) and its real update_interp feed diffeq
    #      density / gravity / bulk / shear interpolated from their own arrays over the radius array, the frequency, degree and G that were handed in
    for (kind, static, incomp), cname in SM.CLASSES.items():
        try:
            dyw, yw, Pw, built, wherew = SM.wired_rhs(repo, kind, static, incomp)
        except SM.WiringProblem as wp:
            chk.ob('R01.13', f'{kind} layer, static={static}, incompressible={incomp}: the solver cf_build_solver builds integrates the reference system with every material property interpolated from its own array '
                   f'at the current radius and the frequency / degree / G it was given', False, str(wp), wp.where, key=f'R01.13|{cname}', method='interpretation of cf_build_solver -> ... -> diffeq')
            continue
        refw = ts72.reference_rhs(kind, static, incomp, yw, Pw)
        namesw = ts72.LAYOUT[(kind, static)]
        badw = [namesw[i] for i in range(len(namesw)) if not d.equal(dyw[i], refw[i])]
        ok = built == cname and not badw
        chk.ob('R01.13', f'{kind} layer, static={static}, incompressible={incomp}: the solver cf_build_solver builds integrates the reference system with every material property interpolated from its own array '
               f'at the current radius and the frequency / degree / G it was given', ok,
               (f'built {built}, expected {cname}; ' if built != cname else '') + (f'rows {badw} differ (a property is interpolated from another array, not refreshed, or a constant is mis-set)' if badw else ''),
               wherew, key=f'R01.13|{cname}', method='interpretation of cf_build_solver -> __init__ -> install_pointers -> update_interp -> diffeq (CyRK interpolation by contract) + GF(p^2) PIT')
    chk.floor('R01.13', 8)
    from . import solver_whole as SW
    SW.guarded(chk, 'C01', lambda: SW.build_arguments(chk, repo, 'R01.14'))
    SW.guarded(chk, 'C01', lambda: SW.entry_point_arguments(chk, repo, 'R01.15'))
    from .common import index_width_lint
    index_width_lint(chk, repo, 'R01.17', ['TidalPy/RadialSolver/**/*.pyx', 'TidalPy/utilities/dimensions/*.pyx'])
    chk.floor('R01.17', 30)
    # ---- R01.18 the closed form is reached only from regular starting solutions: the rules of C04 that concern solid layers (span of the starting vectors invariant under the
    #      solver's own equations, slot discipline, the z / phi / psi series, dispatch and the arguments the solver hands to the starting-condition driver) under this property
    from .common import RuleAlias
    from . import c04 as C4
    al = RuleAlias(chk, 'R01.18', lambda rule, inst: (rule in ('R04.1', 'R04.3') and '_solid_' in inst) or rule in ('R04.2', 'R04.8') or (rule == 'R04.4' and 'solid' in inst.lower()))
    C4.starting_vectors(al, repo)
    C4.series_tables(al, repo)
    C4.driver(al, repo)
    SW.guarded(chk, 'C01', lambda: SW.starting_arguments(al, repo, 'R04.8'))
    chk.floor('R01.18', 30)
    # ---- R01.11 Love numbers of every requested type are read from the top row of that type's assembled solution (whole-driver symbolic execution)
    from . import solver_whole
    solver_whole.guarded(chk, 'C01', lambda: solver_whole.assembled(chk, repo, 'R01.16', None, 'R01.11', rule_span='R01.12'))
    if not any(not o.ok for o in chk.obls):
        chk.floor('R01.11', 20); chk.floor('R01.12', 20)
    # ---- R01.19: the property is observed at `radial_solver(...).love` (and .k / .h / .l): the readers of the Love-number buffer hand back, for every requested type, the
    #      three numbers the driver stored for that type (C03's reader rule, taken under C01)
    from . import c03
    from .common import RuleAlias
    al19 = RuleAlias(chk, 'R01.19', lambda rule, inst: rule == 'R03.3' and inst.startswith('readers'))
    c03.love_readers(al19, repo)
    chk.floor('R01.19', 3)
    # ---- R01.20: the tidal surface values the driver imposes by default (solve_for=None) and on request, dimensional and non-dimensionalised (C02's boundary-table rule under C01:
    #      a uniform body solved with nondimensionalize=False must give the closed form as well)
    from . import c02
    al20 = RuleAlias(chk, 'R01.20', lambda rule, inst: rule == 'R02.2' and ('default' in inst or "('tidal',)" in inst))
    c02.bc_table(al20, repo, d, make_eq(al20, d))
    chk.floor('R01.20', 4)
    from .common import unsigned_negation_lint
    unsigned_negation_lint(chk, repo, 'R01.17', ['TidalPy/RadialSolver/**/*.pyx', 'TidalPy/utilities/dimensions/*.pyx'])
    chk.floor('R01.1', 8 + 36 * 4 + 16 * 2 + 4 * 2); chk.floor('R01.2', 6); chk.floor('R01.3', 17); chk.floor('R01.5', 3)
    chk.assume('r, rho, g, K, omega > 0; mu complex; l treated as a symbolic real')


def dispatch(chk, repo, mo, mats):
    fb = need_func(mo, 'cf_build_solver')
    constructed = {}

    def construct(itp, f, args, kwargs, e, fr):
        o = Obj(cls=f, name=f[2].name, attrs={'install_pointers': (lambda *a, **k: None), '__classname__': f[2].name})
        return o
    it = Interp(repo, hooks={'construct': construct})
    msolver = repo.by_path('TidalPy/RadialSolver/solver.pyx')
    # cf_find_num_solutions may live in solver.pyx or a helper; resolve by name through solver.pyx
    r = repo.resolve(msolver, 'cf_find_num_solutions')
    if not (r and r[0] == 'def'):
        raise AnalysisError('cf_find_num_solutions not resolvable from solver.pyx')
    fmod, fnum = r[1], r[2]
    for (kind, static, incomp), cname in SM.CLASSES.items():
        lt = 0 if kind == 'solid' else 1
        dummy = [Arr('p') for _ in range(5)]
        args = [lt, static, incomp, 10, 12, *dummy, X.atom('w', 'pos'), 2, X.atom('G', 'pos'), (X.atom('r0', 'pos'), X.atom('r1', 'pos')), Arr('y0'), Arr('at'), Arr('rt'), 1,
                X.atom('ms', 'pos'), 100, 100, 100, True]
        try:
            obj = it.call(mo, fb, args)
        except AnalysisError as ex:
            raise AnalysisError(f'cf_build_solver({lt},{static},{incomp}): {ex}')
        got = obj.attrs.get('__classname__') if isinstance(obj, Obj) else None
        chk.ob('R01.3', f'cf_build_solver(layer_type={lt}, static={static}, incompressible={incomp}) constructs the class whose equations are that case', got == cname,
               f'constructs {got}, the matrix of that assumption set is implemented by {cname}', mo.where(fb), key=f'R01.3|build|{kind}|{static}|{incomp}', method='partial evaluation')
        ns = it.call(fmod, fnum, [lt, static, incomp])
        want = ts72.NUM_SOLS[(kind, static)]
        chk.ob('R01.3', f'cf_find_num_solutions({lt}, {static}, {incomp}) == {want} (= half the number of ys of that class)', ns == want and 2 * want == len(mats[(kind, static, incomp)][1]),
               f'returns {ns}', fmod.where(fnum), key=f'R01.3|numsol|{kind}|{static}|{incomp}', method='partial evaluation')
    # layer types other than 0 are liquids everywhere? (cf_build_solver treats any non-zero type as liquid; cf_find_num_solutions must agree)
    for lt in (2,):
        try:
            ns = it.call(fmod, fnum, [lt, False, False])
        except Exception as ex:          # raise is fine
            ns = 'raises'
        obj = it.call(mo, fb, [lt, False, False, 10, 12, *[Arr('p') for _ in range(5)], X.atom('w', 'pos'), 2, X.atom('G', 'pos'), (X.atom('r0', 'pos'), X.atom('r1', 'pos')), Arr('y0'), Arr('at'), Arr('rt'), 1,
                                X.atom('ms', 'pos'), 100, 100, 100, True])
        got = obj.attrs.get('__classname__')
        ok = (ns == 'raises') or (got.startswith('Liquid') and ns == 2) or (got.startswith('Solid') and ns == 3)
        chk.ob('R01.3', f'unknown layer_type={lt}: builder and solution counter agree (or the counter raises)', ok, f'builder {got}, counter {ns}', fmod.where(fnum), method='partial evaluation')


def love(chk, repo, d, eq):
    ml = repo.by_path('TidalPy/RadialSolver/love.pyx')
    f = need_func(ml, 'find_love_cf')
    it = Interp(repo)
    ys = [X.atom(f'ysurf{k + 1}', 'complex') for k in range(6)]
    surf = Arr('surface', default=lambda k: ys[k])
    out = Arr('love')
    g = X.atom('g_surf', 'pos')
    it.call(ml, f, [out, surf, g])
    where = ml.where(f)
    if sorted(out.store) != [0, 1, 2]:
        chk.ob('R01.5', 'find_love_cf writes exactly three Love numbers', False, f'slots {sorted(out.store)}', where); return
    eq('R01.5', 'k = y5(surface) - 1', out.store[0], ys[4] - 1, where)
    eq('R01.5', 'h = g y1(surface)', out.store[1], g * ys[0], where)
    eq('R01.5', 'l = g y3(surface)', out.store[2], g * ys[2], where)
    # the call site in cf_radial_solver (which row of which solution type is read, with which gravity) is decided on the whole driver: R01.11
