"""C10 — mode-summed tidal heating and torques are consistent (formula level)."""
from __future__ import annotations
import math
import ast
from fractions import Fraction as F
from math import factorial
from ..core import expr as X
from ..core.interp import Interp, FuncRef, Opaque
from ..core.report import AnalysisError
from ..frontend.pyfront import Repo

LEVEL = 'other'
TECHNIQUE = 'abstract interpretation of calculate_terms / collapse_modes over the extracted eccentricity and inclination tables (loops unrolled over all modes); per-term and summed identities decided by polynomial identity testing; registry wiring by resolved callee identity; sign analysis of the tables by exact root isolation; entry-point argument flow with tolerance tests on caller data forked (both outcomes are paths) and a second pass with array inputs (arrays as mutable cells); in-place-argument and stored-alias lints'
LEVEL_TEXT = ('The mode summation is interpreted symbolically for whole (truncation, l_max, obliquity on/off) configurations, every (l,m,p,q) term is captured, and the '
              'heating/torque relations, the frequency-signature grouping, the synchronous-circular zero and the classical 21/2 limit are decided as exact identities in '
              'n, spin, e, I, a, R and per-frequency complex compliances.')
LEVEL_NOTE = ('Trusted: front-end, interpreter, algebra without rounding; |w| and sign(w) are modelled with sign(w)*w = |w|. Non-negativity: heating is a sum of non-negative factors wherever every tabulated G^2 is non-negative; decided is that each table has such a range (R10.8) and, '
              'in the thorough tier, the range itself by exact root isolation (recorded in the evidence); the total can stay positive beyond it. Quick tier covers 4 configurations, thorough 20+.')
EXPLANATION = ('R10.1 per-term formulas and heating == n dUdM - spin dUdO per term; R10.2 stored sums == sum of captured terms, collapse applies the same -Im k and susceptibility to all '
               'channels so heating == host_mass (n dUdM - spin dUdO) overall; R10.3 every term grouped under a frequency signature has exactly that frequency, skipped terms have zero '
               'frequency; R10.4 synchronous circular zero-obliquity gives zero for all four outputs; R10.5 classical limit 7 e^2 n * susceptibility * (-Im k2); R10.6 registry wiring; R10.7 no in-place update of arguments; R10.8 every truncation has a range where all G^2 >= 0 (hence heating >= 0 for passive rheologies) and the first sign change of the spin rate lies at a tabulated resonance; R10.9 the public entry point hands the tables of the requested truncation and degree to the summation.')
EXPLANATION += ' R10.10 the array twin: every interpreted call repeated with array arguments (mutable cells) returns the scalar values element for element and leaves the arguments intact.'


EXPLANATION += ' R10.11 no integer-literal power (negative, or >= 3) is taken of a quantity that stays an integer when the arguments are integers (numba types arithmetic by its arguments: 0 for a negative power, silent int64 wrap-around for a large one).'
TECHNIQUE += '; syntactic type flow in numba-compiled kernels (integer-literal powers of integer-typed arguments)'
EXPLANATION += ' R10.8 also at the public entry point: quick_tidal_dissipation given fixed_q only (CPL; CTL with the time lag it derives itself; CTL with obliquity tides) is interpreted as a whole and the returned heating expression is evaluated in floating point at spin / n in {-3, -1, 0, 0.5, 0.99, 1.5, 3}: each value must be >= 0 (a finite sample of the spin axis: evidence of a sign error in the derived lag, not a proof of non-negativity).'
TECHNIQUE += '; float evaluation of the extracted entry-point heating expression over a fixed grid of spin states (derived-lag sign)'

def run(chk):
    repo = Repo(chk.repo)
    # R10.11: integer arguments are values like any other; numba keeps them integers until they meet a float (an integer-literal power is taken first)
    from .common import int_power_lint
    int_power_lint(chk, repo, 'R10.11', ['TidalPy/tides/dissipation.py', 'TidalPy/tides/modes/mode_manipulation.py', 'TidalPy/tides/love1d.py', 'TidalPy/toolbox/quick_tides.py'])
    mm = repo.by_path('TidalPy/tides/modes/mode_manipulation.py')
    f_terms = mm.defs.get('calculate_terms'); f_coll = mm.defs.get('collapse_modes'); f_find = mm.defs.get('find_mode_manipulators')
    for nm, f in (('calculate_terms', f_terms), ('collapse_modes', f_coll), ('find_mode_manipulators', f_find)):
        if not isinstance(f, ast.FunctionDef):
            raise AnalysisError(f'mode_manipulation.{nm} vanished')
    captured = []

    def post(itp, st, fr):
        if getattr(itp, 'array_mode', False):
            return      # the array twin of a call is compared through its results only
        if fr.fname == 'calculate_terms' and isinstance(st, ast.Assign) and len(st.targets) == 1 and isinstance(st.targets[0], ast.Name) \
                and st.targets[0].id == 'dUdO_term':
            need = ['order_l', 'm', 'p', 'q', 'uni_multiplier', 'mode', 'mode_frequency', 'heating_term', 'dUdM_term', 'dUdw_term', 'dUdO_term', 'freq_sig']
            miss = [k for k in need if k not in fr.vars]
            if miss:
                return      # locals renamed: the per-term capture is a diagnostic refinement only; the output-based rule below decides
            captured.append({k: fr.vars[k] for k in need})

    it = Interp(repo, hooks={'post_stmt': post}, max_depth=10)
    mh = repo.by_path('TidalPy/tides/modes/mode_calc_helper/__init__.py')
    elook = it.global_name(mh, 'eccentricity_functions_lookup'); ilook = it.global_name(mh, 'inclination_functions_lookup')

    n = X.atom('n', 'pos'); spin = X.atom('spin'); a = X.atom('a', 'pos'); R = X.atom('R', 'pos')
    e = X.atom('e', 'pos'); I = X.atom('I')
    host = X.atom('host_mass', 'pos'); sus = X.atom('suscept', 'pos'); scale = X.atom('tidal_scale', 'pos')
    g = X.atom('g', 'pos'); rho = X.atom('rho', 'pos'); mu = X.atom('mu', 'pos')
    K = 2 if chk.tier == 'quick' else 4
    d = X.Decider(seed=chk.seed, k=K)
    from .common import ArrayTwin
    twin = ArrayTwin(chk, 'R10.10', it, d)

    def eq(rule, inst, got, ref, where, dec=None):
        dec = dec or d
        ok = dec.equal(got, ref)
        chk.ob(rule, inst, ok, '' if ok else f'identity fails: {dec.describe(got, ref)}', where, method='GF(p^2) PIT')
        return ok

    if chk.tier == 'quick':
        configs = [(2, 2, True), (2, 3, True), (6, 2, False), (4, 3, False), (2, 5, True), (8, 4, False), (20, 2, True), (2, 7, False)]
    else:
        configs = [(N, L, ob) for N in (2, 4, 8, 20) for L in (2, 3, 5) for ob in (True, False)] + [(10, 7, True), (2, 7, False), (22, 2, True)]
    where_t = mm.where(f_terms); where_c = mm.where(f_coll)
    nterms_total = 0
    for (N, L, obl) in configs:
        ef = elook[N][L]; inf = ilook[obl][L]
        # (a registry may hold the table functions themselves or callable wrappers around them: either is applied)
        from ..core.interp import Obj as _Obj
        if not (isinstance(ef, (FuncRef, _Obj)) and isinstance(inf, (FuncRef, _Obj))):
            raise AnalysisError('lookup tables do not hold callables of the repository')
        etab = it.apply(ef, [e], {}, None, None); itab = it.apply(inf, [I], {}, None, None)
        # spin states: a generic spin, the synchronous one (the very same value), and exact spin-orbit resonances given as numbers times n (modes of exactly zero frequency
        # exist there and are not skipped: their terms must not reach any output)
        res_list = [(X.const(F(3, 2)), 'spin = 3n/2')] if chk.tier == 'quick' else [(X.const(F(3, 2)), 'spin = 3n/2'), (X.const(2), 'spin = 2n'), (X.const(F(1, 2)), 'spin = n/2'), (X.const(-1), 'spin = -n'), (X.ZERO, 'spin = 0')]
        if (N, L, obl) not in ((2, 2, True), (6, 2, False), (4, 3, False)) and chk.tier == 'quick':
            res_list = []
        for sync, sp, splab in [(False, spin, 'generic spin'), (True, n, 'spin is n')] + [(False, r_ * n, lab_) for r_, lab_ in res_list]:
            cfg = f'N={N} lmax={L} obliquity={"on" if obl else "off"} {splab}'
            captured.clear()
            uniq, res = it.call(mm, f_terms, [sp, n, a, R, etab, itab], {'multiply_modes_by_sign': True})
            terms = list(captured)
            nterms_total += len(terms)
            chk.note_analysed('configurations', f'{cfg}: {len(terms)} terms, {len(uniq)} unique frequencies')
            # ---- R10.1 output-based (independent of how the function names its locals): for every degree l and every class of modes sharing one
            # |frequency|, the results stored under the signatures of that frequency add up to the sum of the defining terms of the class
            refterms = []
            for l in range(2, L + 1):
                for (m, p) in itab[l]:
                    for q in etab[l][p]:
                        coef = F((1 if m == 0 else 2) * factorial(l - m), factorial(l + m))
                        U = (R / a) ** (2 * l - 4) * X.const(coef) / X.const(F(3, 2)) * itab[l][(m, p)] * etab[l][p][q]
                        w = (l - 2 * p + q) * n - m * sp
                        if d.is_zero(w):
                            continue
                        sg = X.fn('sign', w)
                        refterms.append((l, X.fn('abs', w), (U * X.fn('abs', w), U * (l - 2 * p + q) * sg, U * (l - 2 * p) * sg, U * m * sg), (l, m, p, q)))
            classes = []        # representatives of distinct |w|
            for t in refterms:
                for c in classes:
                    if d.equal(c, t[1]): break
                else:
                    classes.append(t[1])
            sig_class = {}
            badc = []
            for sig, fq in uniq.items():
                for ci, c in enumerate(classes):
                    if d.equal(c, fq):
                        sig_class[sig] = ci; break
                else:
                    # (a mode of exactly zero frequency may be stored, with zeros: heating U|w| = 0 and sgn(0) = 0 in the three derivatives)
                    if sig in res and any(not d.is_zero(X.lift(v_)) for tup_ in res[sig].values() for v_ in tup_):
                        badc.append(f'signature {sig} stores non-zero results under a frequency that no (l,m,p,q) mode of non-zero frequency has')
            for ci, c in enumerate(classes):
                for l in range(2, L + 1):
                    ref4 = [X.ZERO] * 4; members = []
                    for t in refterms:
                        if t[0] == l and d.equal(t[1], c):
                            members.append(t[3])
                            for k in range(4): ref4[k] = ref4[k] + t[2][k]
                    got4 = [X.ZERO] * 4
                    for sig, cj in sig_class.items():
                        if cj == ci and sig in res and l in res[sig]:
                            for k in range(4): got4[k] = got4[k] + res[sig][l][k]
                    for k, nm in enumerate(('heating', 'dUdM', 'dUdw', 'dUdO')):
                        if not d.equal(got4[k], ref4[k]):
                            badc.append(f'l={l}, modes {members[:4]}{"..." if len(members) > 4 else ""} (one shared |frequency|): stored {nm} differs from the sum of the defining terms: {d.describe(got4[k], ref4[k])}')
            chk.ob('R10.1', f'{cfg}: per degree and per frequency class, stored (heating, dUdM, dUdw, dUdO) == sum of U|w|, U(l-2p+q)sgn w, U(l-2p)sgn w, U m sgn w over the class '
                   f'({len(refterms)} modes, {len(classes)} classes)', not badc, '; '.join(badc[:3]), where_t, method='GF(p^2) PIT')
            # ---- R10.1 per term
            bad = []
            seen_keys = set()
            for t in terms:
                l, m, p, q = t['order_l'], t['m'], t['p'], t['q']
                seen_keys.add((l, m, p, q))
                coef = F((1 if m == 0 else 2) * factorial(l - m), factorial(l + m))
                U = (R / a) ** (2 * l - 4) * X.const(coef) / X.const(F(3, 2)) * itab[l][(m, p)] * etab[l][p][q]
                w = (l - 2 * p + q) * n - m * sp
                sg = X.fn('sign', w)
                checks = [('uni_multiplier', t['uni_multiplier'], U), ('mode', t['mode'], w),
                          ('heating_term', t['heating_term'], U * X.fn('abs', w)),
                          ('dUdM_term', t['dUdM_term'], U * (l - 2 * p + q) * sg),
                          ('dUdw_term', t['dUdw_term'], U * (l - 2 * p) * sg),
                          ('dUdO_term', t['dUdO_term'], U * m * sg),
                          ('heating == n dUdM - spin dUdO', t['heating_term'], n * t['dUdM_term'] - sp * t['dUdO_term'])]
                for nm, got, ref in checks:
                    if not d.equal(got, ref):
                        bad.append(f'(l,m,p,q)=({l},{m},{p},{q}) {nm}: {d.describe(got, ref)}')
                # R10.3 stored frequency of the signature equals this term's frequency
                if t['freq_sig'] not in uniq or not d.equal(uniq[t['freq_sig']], X.fn('abs', w)):
                    bad.append(f'(l,m,p,q)=({l},{m},{p},{q}) grouped under signature {t["freq_sig"]} whose stored frequency differs from |w|')
            if terms:
                chk.ob('R10.1', f'{cfg}: {len(terms)} terms x 7 formulas + signature frequency', not bad, '; '.join(bad[:3]), where_t, method='GF(p^2) PIT')
            # skipped terms must have zero frequency
            badskip = []
            nskip = 0
            for l in range(2, L + 1):
                for (m, p) in itab[l]:
                    for q in etab[l][p]:
                        if (l, m, p, q) in seen_keys: continue
                        nskip += 1
                        w = (l - 2 * p + q) * n - m * sp
                        if not d.is_zero(w):
                            badskip.append(f'({l},{m},{p},{q}) skipped but w = {X.show(w)[:40]} is not identically zero')
            if terms:
                chk.ob('R10.3', f'{cfg}: {nskip} skipped terms have zero frequency', not badskip, '; '.join(badskip[:3]), where_t, method='GF(p^2) PIT')
            else:
                chk.ob('R10.3', f'{cfg}: every mode of non-zero frequency is accounted for in its frequency class (output-based; per-term capture unavailable)', not badc,
                       '; '.join(badc[:2]), where_t, method='GF(p^2) PIT')
            # ---- R10.2 sums
            sums = {}
            for t in terms:
                key = (t['freq_sig'], t['order_l'])
                cur = sums.get(key, (X.ZERO,) * 4)
                sums[key] = tuple(c + t[k] for c, k in zip(cur, ('heating_term', 'dUdM_term', 'dUdw_term', 'dUdO_term')))
            bads = []
            keys_res = {(sig, l) for sig, byl in res.items() for l in byl}
            if keys_res != set(sums):
                bads.append(f'stored keys differ from captured keys: {sorted(map(str, keys_res ^ set(sums)))[:4]}')
            else:
                for (sig, l), tup in sums.items():
                    for c in range(4):
                        if not d.equal(res[sig][l][c], tup[c]):
                            bads.append(f'sig={sig} l={l} channel {c}: stored sum differs from sum of terms')
            if terms:
                chk.ob('R10.2', f'{cfg}: stored results == sums of captured terms ({len(sums)} (signature,l) groups)', not bads, '; '.join(bads[:3]), where_t, method='GF(p^2) PIT')
            # ---- collapse
            if not res:
                continue
            comp = {sig: X.atom(f'J{sig[0]}_{sig[1]}'.replace('-', 'm'), 'complex') for sig in res}
            out = it.call(mm, f_coll, [g, R, rho, mu, scale, host, sus, comp, res, L], {'cpl_ctl_method': False})
            heating, dM, dw, dO = out[0], out[1], out[2], out[3]
            eq('R10.2', f'{cfg}: collapse_modes heating == host_mass (n dUdM - spin dUdO)', heating, host * (n * dM - sp * dO), where_c)
            # explicit form: sum over sig,l of term * (-Im k_l(J_sig)) * susceptibility
            mlove = repo.by_path('TidalPy/tides/love1d.py')
            ref = [X.ZERO] * 4
            for sig, byl in res.items():
                for l, tup in byl.items():
                    er = it.call(mlove, mlove.defs['effective_rigidity_general'], [mu, g, R, rho], {'order_l': l})
                    k = it.call(mlove, mlove.defs['complex_love_general'], [comp[sig], mu, er], {'order_l': l})
                    negimk = -(X.fn('imag', k) * scale)
                    ref[0] = ref[0] + tup[0] * negimk
                    for c in (1, 2, 3):
                        ref[c] = ref[c] + tup[c] * negimk / host
            for c, nm in enumerate(('tidal_heating', 'dUdM', 'dUdw', 'dUdO')):
                eq('R10.2', f'{cfg}: collapse_modes {nm} == susceptibility * sum_sig,l term * (-Im k_l(J_sig))' + ('' if c == 0 else ' / host_mass'), out[c], sus * ref[c], where_c)
            # CPL/CTL path: compliance argument is the Love number itself
            outc = it.call(mm, f_coll, [g, R, rho, mu, scale, host, sus, comp, res, L], {'cpl_ctl_method': True})
            eq('R10.2', f'{cfg}: collapse_modes (CPL/CTL) heating == host_mass (n dUdM - spin dUdO)', outc[0], host * (n * outc[1] - sp * outc[3]), where_c)
            refc = X.ZERO
            for sig, byl in res.items():
                for l, tup in byl.items():
                    refc = refc + tup[0] * -(X.fn('imag', comp[sig]) * scale)
            eq('R10.2', f'{cfg}: collapse_modes (CPL/CTL) heating == susceptibility * sum term * (-Im k given)', outc[0], sus * refc, where_c)
            # ---- R10.4 synchronous, circular, zero obliquity
            if sync:
                # every surviving term (w != 0) must carry F^2_lmp(0) G^2_lpq(0) = 0.  The obliquity-on tables are typed with rounded
                # decimals (2/11 to 25 digits), so the table values are evaluated exactly as rationals and compared to 1e-11 of the table scale.
                from ..core import trigpoly as T
                from ..core.series import to_series
                badz = []
                for (l, m, p, q) in [t[3] for t in refterms]:      # every mode of non-zero frequency (these are the terms the summation keeps, R10.1/R10.3)
                    try:
                        tp = T.to_trig(itab[l][(m, p)])
                        f0 = sum(c[0] for c in tp.values())
                        fscale = max(T.t_maxabs(tp), 1e-300)
                    except AnalysisError:
                        # an entry that is not written as a trigonometric polynomial in I (a root, a folded angle): its value at I = 0 and its scale by evaluation
                        f0 = abs(X.float_eval(itab[l][(m, p)], {'I': 0.0}))
                        fscale = max([abs(X.float_eval(itab[l][(m, p)], {'I': v_})) for v_ in (0.3, 0.9, 1.4)] + [1e-300])
                    g0 = to_series(etab[l][p][q], 'e', 0)[0]
                    if abs(float(f0)) > 1e-11 * fscale and g0 != 0:
                        badz.append(f'({l},{m},{p},{q}): F^2(0)={float(f0):.4g}, G^2(0)={float(g0):.4g}, frequency {(l - 2 * p + q) - m} n')
                chk.ob('R10.4', f'{cfg}: every term kept has F^2(0) G^2(0) = 0, so heating, dUdM, dUdw, dUdO vanish at e = 0, I = 0', not badz,
                       '; '.join(badz[:3]), where_t, method='exact rational table evaluation')
                if not obl:
                    d0 = X.Decider(seed=chk.seed + 1, k=K, pins={'e': 0, 'I': 0})
                    z = all(d0.is_zero(out[c]) for c in range(4))
                    chk.ob('R10.4', f'{cfg}: collapsed heating, dUdM, dUdw, dUdO are identically zero at e = 0', z,
                           'non-zero output for a circular, zero-obliquity, synchronous orbit', where_c, method='pinned GF(p^2) PIT')
            # ---- R10.5 classical limit
            if sync and N == 2 and L == 2:
                dI = X.Decider(seed=chk.seed + 2, k=K, pins={'I': 0})
                sig_n = [s for s in res if dI.equal(uniq[s], n)]
                same = bool(sig_n)
                kk = [comp[s] for s in sig_n]
                # all modes with |w| = n share one compliance: identify their J atoms; other signatures must not contribute at I = 0
                sub = {c_.val[0]: kk[0] for c_ in kk[1:]}
                hs = X.subst(out[0], sub)
                er = it.call(mlove, mlove.defs['effective_rigidity_general'], [mu, g, R, rho], {'order_l': 2})
                k2 = it.call(mlove, mlove.defs['complex_love_general'], [kk[0], mu, er], {'order_l': 2})
                ref = 7 * e * e * n * sus * -(X.fn('imag', k2) * scale)
                ok = same and dI.equal(hs, ref)
                chk.ob('R10.5', f'{cfg}: heating at I=0 == 7 e^2 n * susceptibility * (-Im k2)  [(21/2) G M^2 R^5 n e^2 / a^6 * (-Im k2)]', ok,
                       ('no mode has |w| = n; ' if not same else '') + dI.describe(hs, ref), where_t, method='pinned GF(p^2) PIT')
    chk.note_analysed('terms_captured', nterms_total)

    # ---- R10.6 wiring
    cnt = 0
    for N in sorted(elook):
        for L in sorted(elook[N]):
            for obl in (True, False):
                r = it.call(mm, f_find, [], {'max_order_l': L, 'eccentricity_truncation_lvl': N, 'use_obliquity': obl})
                ok = (isinstance(r, tuple) and len(r) == 4 and isinstance(r[0], FuncRef) and r[0].node is f_terms and isinstance(r[1], FuncRef) and r[1].node is f_coll
                      and r[2] is elook[N][L] and r[3] is ilook[obl][L])
                cnt += 1
                chk.ob('R10.6', f'find_mode_manipulators(l={L}, N={N}, obliquity={obl})', ok, 'does not return (calculate_terms, collapse_modes, lookup[N][L], lookup[obl][L])',
                       mm.where(f_find), method='resolved callee identity')
    md = repo.by_path('TidalPy/tides/dissipation.py')
    fs = md.defs.get('calc_tidal_susceptibility')
    if not isinstance(fs, ast.FunctionDef):
        raise AnalysisError('calc_tidal_susceptibility vanished')
    M = X.atom('M', 'pos')
    eq('R10.6', 'calc_tidal_susceptibility == (3/2) G M^2 R^5 / a^6', it.call(md, fs, [M, R, a]), X.const(F(3, 2)) * X.atom('const_G', 'pos') * M ** 2 * R ** 5 / a ** 6, md.where(fs))
    fr_ = md.defs.get('calc_tidal_susceptibility_reduced')
    if isinstance(fr_, ast.FunctionDef):
        eq('R10.6', 'calc_tidal_susceptibility_reduced * a^-6 == calc_tidal_susceptibility', it.call(md, fr_, [M, R]) / a ** 6, it.call(md, fs, [M, R, a]), md.where(fr_))
    from .common import inplace_lint
    inplace_lint(chk, repo, 'R10.7', ['TidalPy/tides/modes/mode_manipulation.py', 'TidalPy/tides/dissipation.py', 'TidalPy/tides/love1d.py', 'TidalPy/toolbox/quick_tides.py'])
    chk.floor('R10.7', 4)
    twin.finish(floor=4)
    nonnegativity(chk, repo, it)
    entry_point(chk, repo)
    chk.floor('R10.1', len(configs) * 2); chk.floor('R10.2', len(configs) * 2 * 2); chk.floor('R10.3', len(configs) * 2)
    chk.floor('R10.4', len(configs)); chk.floor('R10.5', 1); chk.floor('R10.6', 100)
    chk.assume('n, a, R, e > 0; sign(w) w = |w|; compliances arbitrary complex per unique frequency')


# ------------------------------------------------------------------------------------------------ R10.8 non-negativity inside the validity range
def nonnegativity(chk, repo, it):
    """heating = susceptibility * sum_modes [coef * F^2_lmp(I) * G^2_lpq(e) * |w|] * (-Im k_l(|w|))   (R10.1, R10.2).  coef > 0, |w| >= 0, F^2 is a square (C09 R09.1), so
    for a passive rheology (-Im k >= 0) heating >= 0 wherever every tabulated G^2_lpq(e) >= 0.  Decided: each tabulated G^2 is non-negative on a right-neighbourhood of
    e = 0 (its lowest-order non-zero Taylor coefficient is positive), i.e. every truncation HAS a validity range; thorough tier: the range itself,
    e*(N, l) = the smallest e in (0, 1) at which some entry of the table changes sign (exact real-root isolation on the extracted polynomials), recorded in the evidence."""
    import re
    from ..core.series import to_series
    e = X.atom('e', 'pos')
    n_tab = 0
    estar = {}
    for l in range(2, 8):
        m = repo.by_path(f'TidalPy/tides/eccentricity_funcs/orderl{l}.py')
        funcs = sorted(((int(n_[len('eccentricity_funcs_trunc'):]), f_) for n_, f_ in m.defs.items() if isinstance(f_, ast.FunctionDef) and re.fullmatch(r'eccentricity_funcs_trunc\d+', n_)))
        for N, f_ in funcs:
            table = it.call(m, f_, [e])
            bad = []
            worst = None
            for p, row in table.items():
                for q, node in row.items():
                    ser = to_series(node, 'e', N + 2)
                    lead = next((c for c in ser if c != 0), None)
                    if lead is not None and lead < 0:
                        bad.append(f'(p={p}, q={q}): leading coefficient {float(lead):.4g}')
                    if chk.tier == 'thorough' and l <= 3:
                        r0 = first_sign_change(node, ser)
                        if r0 is not None and (worst is None or r0 < worst[0]):
                            worst = (r0, p, q)
            n_tab += 1
            chk.ob('R10.8', f'orderl{l}.eccentricity_funcs_trunc{N}: every G^2_lpq(e) is non-negative on a neighbourhood of e = 0 (lowest-order coefficient positive), so the truncation has a validity range', not bad,
                   '; '.join(bad[:4]), m.where(f_), key=f'R10.8|l={l}|N={N}', method='exact Taylor coefficients of the extracted table')
            if worst is not None:
                estar[(l, N)] = worst
    for (l, N), (r0, p, q) in sorted(estar.items()):
        chk.note_analysed('validity range (all G^2 >= 0 for e below)', f'l={l}, N={N}: e* = {r0:.4f} (first sign change: p={p}, q={q})')
    chk.floor('R10.8', 60)


def first_sign_change(node, ser):
    """smallest e in (0, 1) where the (polynomial or rational, denominators powers of 1 - e^2) entry changes sign; None if it does not"""
    from sympy import Poly, Symbol, Rational, sqf_list, real_roots
    from ..core import ratfunc as R
    es = Symbol('e')
    num, den = R.to_frac(node)

    def to_sym(poly):
        expr = 0
        for mono, c in poly.items():
            if c[1] != 0: return None
            t = Rational(c[0].numerator, c[0].denominator)
            for k, ex in mono:
                if k[0] != 'a': return None
                t = t * es ** ex
            expr += t
        return expr
    ns = to_sym(num)
    if ns is None or ns == 0:
        return None
    P_ = Poly(ns, es)
    _c, facs = sqf_list(P_)
    odd = Poly(1, es)
    for fpoly, mult in facs:
        if mult % 2 == 1: odd = odd * fpoly
    if odd.degree() <= 0:
        return None
    best = None
    for rt in real_roots(odd):
        v = float(rt)
        if 1e-12 < v < 1 and (best is None or v < best): best = v
    return best


# ------------------------------------------------------------------------------------------------ R10.9 the public entry point end to end
def entry_point(chk, repo):
    """toolbox.quick_tides.quick_tidal_dissipation interpreted as a whole (only the rheology's compliance evaluation is a stub returning one free complex compliance per
    unique frequency): what the user gets back must be the mode-sum identity and, for the default synchronous e^2 / l = 2 case, the classical
    (21/2) (-Im k2) G M_host^2 R^5 n e^2 / a^6 with a from Kepler's third law and k2 the homogeneous-body Love number."""
    from fractions import Fraction as Fr
    mq = repo.by_path('TidalPy/toolbox/quick_tides.py')
    f = mq.defs.get('quick_tidal_dissipation')
    if not isinstance(f, ast.FunctionDef):
        raise AnalysisError('quick_tidal_dissipation vanished')

    def call_hook(itp, fn_, args, kwargs, e, fr):
        if isinstance(fn_, FuncRef) and fn_.node.name == 'compliance_dict_helper':
            freqs = args[0] if args else kwargs.get('tidal_frequencies')
            return {sig: X.atom(f'J{sig[0]}_{sig[1]}'.replace('-', 'm'), 'complex') for sig in freqs}
        return NotImplemented

    def branch_hook(itp, st, v, fr):
        if isinstance(v, Opaque) and v.name.startswith('tolerance test'):
            return None     # np.allclose / np.isclose on the caller's data: both outcomes are explored (fork)
        if isinstance(v, Opaque) and v.name == 'isinstance':
            return False    # isinstance(x, np.ndarray) on a symbolic scalar: the scalar path (array inputs have their own pass)
        return None         # everything else: sign domain, then forked, else the analysis fails closed
    it = Interp(repo, hooks={'call': call_hook, 'branch': branch_hook}, max_depth=12)
    M = X.atom('M_host', 'pos'); m = X.atom('m_target', 'pos'); R = X.atom('R', 'pos'); g = X.atom('g', 'pos'); rho = X.atom('rho', 'pos'); C = X.atom('C', 'pos')
    eta = X.atom('eta', 'pos'); mu = X.atom('mu', 'pos'); e = X.atom('e', 'pos'); n = X.atom('n', 'pos'); spin = X.atom('spin'); I_ = X.atom('I')
    Gc = X.atom('const_G', 'pos')
    d = X.Decider(seed=chk.seed + 71, k=2, positive=[M + m])
    base = dict(host_mass=M, target_radius=R, target_mass=m, target_gravity=g, target_density=rho, target_moi=C, viscosity=eta, shear_modulus=mu, rheology='Maxwell',
                eccentricity=e, orbital_frequency=n)
    where = mq.where(f)
    # (a) default-style call: synchronous (spin not given), no obliquity, l = 2, e^2 truncation
    out = it.call(mq, f, [], dict(base))
    if not isinstance(out, dict) or 'tidal_heating' not in out:
        raise AnalysisError('quick_tidal_dissipation does not return a result dictionary with tidal_heating')
    a = X.fn('cbrt', Gc * (M + m) / (n * n))
    Jn = [v for k_, v in {}.items()]
    # all modes of the synchronous e^2, l = 2 sum share |w| = n: identify the compliance atoms that occur
    jat = sorted({a_.val[0] for a_ in X.atoms_of(out['tidal_heating']) if a_.val[0].startswith('J')})
    J = X.atom(jat[0], 'complex') if jat else None
    hs = X.subst(out['tidal_heating'], {nm: J for nm in jat[1:]}) if J is not None else out['tidal_heating']
    m2 = X.const(Fr(19, 2)) * mu / (rho * g * R)
    k2 = X.const(Fr(3, 2)) / (1 + m2 / (J * mu)) if J is not None else X.ZERO
    ref = X.const(Fr(21, 2)) * (-X.fn('imag', k2)) * Gc * M * M * R ** 5 * n * e * e / a ** 6
    ok = J is not None and d.equal(hs, ref)
    chk.ob('R10.9', 'quick_tidal_dissipation (synchronous, e^2 truncation, l = 2, no obliquity): tidal_heating == (21/2) (-Im k2) G M_host^2 R^5 n e^2 / a^6, a = (G (M + m) / n^2)^(1/3), '
           'k2 = (3/2) / (1 + 19 mu / (2 rho g R) / (J mu)), all modes sharing one compliance', ok, '' if ok else (d.describe(hs, ref) if J is not None else 'no compliance atom in the result'), where,
           key='R10.9|classical', method='whole-function interpretation + GF(p^2) PIT')
    # (b) general call: free spin, obliquity on, l = 3, e^4: returned heating == host_mass (n dUdM - spin dUdO) of the returned derivatives; a and susceptibility as documented
    for kw, lab, arrays in ((dict(spin_frequency=spin, obliquity=I_, max_tidal_order_l=3, eccentricity_truncation_lvl=4, use_obliquity=True), 'Maxwell, free spin, obliquity, l<=3, e^4', False),
                            (dict(spin_frequency=spin, obliquity=I_, rheology='cpl', fixed_k2=X.atom('k2_fixed', 'pos'), fixed_q=X.atom('Q', 'pos')), 'CPL, free spin, obliquity', False),
                            (dict(spin_frequency=spin, rheology='ctl', fixed_k2=X.atom('k2_fixed', 'pos'), fixed_dt=X.atom('dt', 'pos')), 'CTL, free spin', False),
                            # the same with every symbolic input standing for a numpy array (type(x) == np.ndarray holds): the array-handling branches of the entry point
                            (dict(spin_frequency=spin, obliquity=I_, max_tidal_order_l=3, eccentricity_truncation_lvl=4, use_obliquity=True), 'Maxwell, free spin, obliquity, l<=3, e^4, array inputs', True),
                            (dict(spin_frequency=spin, rheology='ctl', fixed_k2=X.atom('k2_fixed', 'pos'), fixed_dt=X.atom('dt', 'pos')), 'CTL, free spin, array inputs', True)):
        it.array_mode = arrays
        args = dict(base); args.update(kw)
        from ..core.interp import PathExplorer

        def one(fork, args=args):
            it.hooks['fork'] = fork
            try:
                return it.call(mq, f, [], dict(args))
            finally:
                it.hooks.pop('fork', None)
        bad = []
        for trace, out in PathExplorer(max_paths=16).run(one):
            if not d.equal(out['tidal_heating'], M * (n * out['dUdM'] - spin * out['dUdO'])):
                bad.append(d.describe(out['tidal_heating'], M * (n * out['dUdM'] - spin * out['dUdO'])) + PathExplorer.label(trace))
        ok = not bad
        chk.ob('R10.9', f'quick_tidal_dissipation ({lab}): returned tidal_heating == host_mass (n dUdM - spin dUdO) of the returned potential derivatives, with the spin rate the caller gave '
               '(on every outcome of tolerance tests made on the inputs)', ok,
               '' if ok else bad[0], where, key=f'R10.9|identity|{lab}', method='whole-function interpretation (paths through data-dependent predicates enumerated) + GF(p^2) PIT')
    # (b') non-negative for passive rheologies incl. CPL / CTL with the lag or quality factor the entry point derives itself when none is given: the returned heating evaluated over
    #      spin / n in [-3, 3] (sub- and super-synchronous, retrograde, non-rotating) at concrete values of the other inputs (float evaluation of the extracted expression)
    it.array_mode = False
    for kw, lab in ((dict(spin_frequency=spin, rheology='ctl', fixed_k2=X.atom('k2_fixed', 'pos'), fixed_q=X.atom('Q', 'pos')), 'CTL, time lag derived from Q'),
                    (dict(spin_frequency=spin, rheology='cpl', fixed_k2=X.atom('k2_fixed', 'pos'), fixed_q=X.atom('Q', 'pos')), 'CPL'),
                    (dict(spin_frequency=spin, obliquity=I_, rheology='ctl', fixed_k2=X.atom('k2_fixed', 'pos'), fixed_q=X.atom('Q', 'pos'), use_obliquity=True), 'CTL, time lag derived from Q, obliquity tides')):
        args = dict(base); args.update(kw)

        def one(fork, args=args):
            it.hooks['fork'] = fork
            try:
                return it.call(mq, f, [], dict(args))
            finally:
                it.hooks.pop('fork', None)
        bad = []
        for trace, out in PathExplorer(max_paths=16).run(one):
            if any(PathExplorer.arm(v_, o_)[0] == 'equality' for (v_, _w, _t, o_) in trace):
                continue
            h_ = X.lift(getattr(out['tidal_heating'], 'v', out['tidal_heating']))
            for k_, ratio in enumerate((-3.0, -1.0, 0.0, 0.5, 0.99, 1.5, 3.0)):
                n0 = 4.0e-5
                env = {n.val[0]: n0, spin.val[0]: ratio * n0, 'e': 0.1, 'I': 0.3, 'Q': 100.0, 'k2_fixed': 0.3, 'pi': math.pi}
                v_ = X.float_eval(h_, env, seed=chk.seed + k_)
                if v_ != v_ or v_.real < -1e-9 * abs(v_):
                    bad.append(f'spin / n = {ratio:g}: heating = {v_.real:.4g}' + PathExplorer.label(trace))
        chk.ob('R10.8', f'quick_tidal_dissipation ({lab}): the returned heating is non-negative for spin / n in [-3, 3] (the lag the entry point derives for itself is a passive one)', not bad,
               '; '.join(bad[:3]), where, key=f'R10.8|entry|{lab}', method='whole-function interpretation + float evaluation of the extracted heating over a grid of spin states')
    # (c) the limit values the property names, passed as exact numbers with array inputs: what the entry point returns there is what the generic result gives at that value
    #     (special cases taken on exact zeros, modes dropped or buffers shared when a coefficient vanishes), and the circular, zero-obliquity, synchronous call returns zeros
    from ..core.interp import PathExplorer
    gen_kw = dict(spin_frequency=spin, obliquity=I_, max_tidal_order_l=3, eccentricity_truncation_lvl=4, use_obliquity=True)
    it.array_mode = True

    def run_paths(args):
        def one(fork, args=args):
            it.hooks['fork'] = fork
            try:
                return it.call(mq, f, [], dict(args))
            finally:
                it.hooks.pop('fork', None)
        return PathExplorer(max_paths=16).run(one)
    args = dict(base); args.update(gen_kw)
    generic = run_paths(args)[0][1]
    for lab, over, pins in (('e = 0', {'eccentricity': X.ZERO}, {'e': 0}), ('obliquity = 0', {'obliquity': X.ZERO}, {'I': 0}), ('e = 0 and obliquity = 0', {'eccentricity': X.ZERO, 'obliquity': X.ZERO}, {'e': 0, 'I': 0})):
        dd = X.Decider(seed=chk.seed + 73, k=2, positive=[M + m], pins=pins)
        args = dict(base); args.update(gen_kw); args.update(over)
        bad = []
        for trace, out in run_paths(args):
            if any(PathExplorer.arm(v_, o_)[0] == 'equality' for (v_, _w, _t, o_) in trace):
                continue
            for q in ('tidal_heating', 'dUdM', 'dUdw', 'dUdO'):
                # (equal as expressions, or -- a table tabulated twice, once for zero obliquity, in rounded decimals -- to 1e-10 of their scale at every sample point)
                if q not in out or not (dd.equal(X.lift(out[q]), X.lift(generic[q])) or dd.close(X.lift(out[q]), X.lift(generic[q]))):
                    bad.append(f'{q} differs from the generic result at that value' + PathExplorer.label(trace)); break
        chk.ob('R10.9', f'quick_tidal_dissipation (Maxwell, free spin, l<=3, e^4, array inputs) with {lab} passed as a number: heating and the three potential derivatives == the generic result at that value',
               not bad, '; '.join(bad[:2]), where, key=f'R10.9|limit|{lab}', method='array-mode interpretation + pinned GF(p^2) PIT')
    args = dict(base); args.update(dict(spin_frequency=n, obliquity=X.ZERO, eccentricity=X.ZERO, max_tidal_order_l=3, eccentricity_truncation_lvl=4, use_obliquity=True))
    bad = []
    for trace, out in run_paths(args):
        for q in ('tidal_heating', 'dUdM', 'dUdw', 'dUdO'):
            if q not in out or not d.is_zero(X.lift(out[q])):
                bad.append(f'{q} is not zero' + PathExplorer.label(trace))
    chk.ob('R10.9', 'quick_tidal_dissipation with spin = n, e = 0, obliquity = 0 passed exactly (array inputs): heating and the three potential derivatives vanish', not bad, '; '.join(bad[:2]), where,
           key='R10.9|limit|synchronous circular', method='array-mode interpretation + GF(p^2) PIT')
    it.array_mode = False
    # (d) the result of a call does not depend on the calls made before it in the same process (results kept between calls: caches keyed on part of the arguments, module-level
    #     buffers).  Scenarios that share the eccentricity, the degree cut-off and the world but differ in ONE option are run one after the other in a single interpreter state;
    #     each result must be what the same call returns in a fresh state.
    scen = {
        'e^2, l<=2, synchronous': {},
        'e^4, l<=2, synchronous': dict(eccentricity_truncation_lvl=4),
        'e^2, l<=3, synchronous': dict(max_tidal_order_l=3),
        'e^4, l<=2, free spin': dict(eccentricity_truncation_lvl=4, spin_frequency=spin),
        'e^2, l<=2, obliquity tides': dict(obliquity=I_, use_obliquity=True),
        'e^2, l<=2, CPL': dict(rheology='cpl', fixed_k2=X.atom('k2_fixed', 'pos'), fixed_q=X.atom('Q', 'pos')),
    }
    KEYS = ('tidal_heating', 'dUdM', 'dUdw', 'dUdO')

    def run_fresh(kw_):
        it_ = Interp(repo, hooks={'call': call_hook, 'branch': branch_hook}, max_depth=12)
        a_ = dict(base); a_.update(kw_)
        return it_.call(mq, f, [], a_)
    alone = {nm_: run_fresh(kw_) for nm_, kw_ in scen.items()}
    orders = [list(scen), list(reversed(list(scen)))]
    bad = []
    for order in orders:
        it_h = Interp(repo, hooks={'call': call_hook, 'branch': branch_hook}, max_depth=12)
        done = []
        for nm_ in order:
            a_ = dict(base); a_.update(scen[nm_])
            out_ = it_h.call(mq, f, [], a_)
            for q in KEYS:
                if not d.equal(X.lift(out_[q]), X.lift(alone[nm_][q])):
                    bad.append(f'[{nm_}] after [{" ; ".join(done)}]: {q} differs from the same call in a fresh process')
                    break
            done.append(nm_)
    chk.ob('R10.9', 'quick_tidal_dissipation: a call returns the same heating and potential derivatives whatever was called before it (six scenarios sharing e and the world, in two orders)',
           not bad, '; '.join(bad[:2]), where, key='R10.9|call-history', method='sequences of calls in one interpreter state (module-level state persists) vs fresh states, GF(p^2) PIT')
    chk.floor('R10.9', 11)
