"""helpers shared by property modules"""
from __future__ import annotations
import ast
from fractions import Fraction
from ..core import expr as X
from ..core.report import AnalysisError


def manifestly_nonneg(n, depth=0):
    """the expression is non-negative for every value of its atoms, by its shape: |x|, |z|^2, an even power, a positive atom, a non-negative constant, and sums / products /
    quotients of such"""
    if depth > 40: return False
    if n.op == 'fn' and n.val in ('abs', 'abs2'): return True
    if n.op == 'fn' and n.val in ('sqrt', 'exp'): return True
    if n.op == 'atom': return n.val[1] == 'pos'
    if n.op == 'const': return n.val >= 0
    if n.op == 'powi': return n.val % 2 == 0 or manifestly_nonneg(n.args[0], depth + 1)
    if n.op in ('add', 'mul', 'div'): return all(manifestly_nonneg(a_, depth + 1) for a_ in n.args)
    return False


def eps_mask(node, pt=None):
    """float_eps is an infinitesimal: |x| > eps is true unless x is exactly 0 at the (possibly pinned) sample point.  Answered only for a quantity that is non-negative by its
    shape (the |x| of the idiom); a signed quantity compared with eps is a different test (it also switches off every negative value) and is left to the sample points."""
    a, b = node.args
    def is_eps(n): return n.op == 'atom' and n.val[0] == 'float_eps'
    if is_eps(b): other, flip = a, False
    elif is_eps(a): other, flip = b, True
    else: return None
    if not manifestly_nonneg(other): return None
    zero = False
    if pt is not None:
        try:
            zero = pt.ev(other) == (0, 0)
        except X.Resample:
            zero = False
    op = node.val
    if flip:
        op = {'<': '>', '<=': '>=', '>': '<', '>=': '<='}.get(op, op)
    if zero:
        return {'>': 0, '>=': 0, '<': 1, '<=': 1}.get(op)
    return {'>': 1, '>=': 1, '<': 0, '<=': 0}.get(op)


def need_func(mod, name):
    f = mod.defs.get(name)
    if not isinstance(f, ast.FunctionDef):
        raise AnalysisError(f'{mod.rel()}: anchor function {name} vanished')
    return f


def need_class(mod, name):
    c = mod.defs.get(name)
    if not isinstance(c, ast.ClassDef):
        raise AnalysisError(f'{mod.rel()}: anchor class {name} vanished')
    return c


def methods(cls):
    return {s.name: s for s in cls.body if isinstance(s, ast.FunctionDef)}


def make_eq(chk, d):
    def eq(rule, inst, got, ref, where, key=None, dec=None):
        dd = dec or d
        ok = dd.equal(got, ref)
        chk.ob(rule, inst, ok, '' if ok else f'identity fails: {dd.describe(got, ref)}', where, key=key, method='GF(p^2) PIT')
        return ok
    return eq


# ---------------------------------------------------------------------------------------------- in-place updates of arguments
_FIXTURE = '''
def kernel(x, y, order_l=2):
    z = x
    z /= y
    return 3. / (2. * (order_l - 1)) * z / (1. + z)
def fine(x, y):
    z = x * 1.
    z /= y
    return z
'''


def _inplace_offenders(fd):
    """augmented assignments whose target is a parameter of fd or a plain alias of one (v = param; v = np.asarray(param)); with numpy arrays
    `a /= b` divides the caller's array in place, so the function's result then depends on how often / in which order it was called"""
    params = {a.arg for a in fd.args.args + fd.args.kwonlyargs} - {'self', 'cls'}
    alias = set(params)
    out = []
    body_nodes = []
    for st in fd.body:
        body_nodes.extend(ast.walk(st))
    changed = True
    while changed:
        changed = False
        for n in body_nodes:
            if isinstance(n, ast.Assign) and len(n.targets) == 1 and isinstance(n.targets[0], ast.Name):
                v = n.value
                src = _view_source(v)
                if src in alias and n.targets[0].id not in alias:
                    # only if every definition of the target is such an alias (a name that is also bound to a fresh value elsewhere is not tracked)
                    defs = [a for a in body_nodes if isinstance(a, ast.Assign) and any(isinstance(t, ast.Name) and t.id == n.targets[0].id for t in a.targets)]
                    if all(a is n or (_view_source(a.value) in alias) for a in defs):
                        alias.add(n.targets[0].id); changed = True
    fresh_rebound = {t.id for n in body_nodes if isinstance(n, ast.Assign) for t in n.targets if isinstance(t, ast.Name)
                     and not (_view_source(n.value) in alias)}
    for n in body_nodes:
        if isinstance(n, ast.AugAssign) and isinstance(n.target, ast.Name) and n.target.id in alias:
            if n.target.id in params and n.target.id in fresh_rebound and any(isinstance(a, ast.Assign) and a.lineno < n.lineno and any(isinstance(t, ast.Name) and t.id == n.target.id for t in a.targets)
                                                                              for a in body_nodes):
                continue        # the parameter name was rebound to a fresh value before the update
            out.append((n.lineno, ast.unparse(n)[:60], n.target.id))
    # element / slice / mask stores into an argument array, and numpy calls writing into it through out=
    def rebound_before(name, lineno):
        return name in fresh_rebound and any(isinstance(a, ast.Assign) and a.lineno < lineno and any(isinstance(t, ast.Name) and t.id == name for t in a.targets) for a in body_nodes)
    for n in body_nodes:
        tgts = n.targets if isinstance(n, ast.Assign) else ([n.target] if isinstance(n, ast.AugAssign) else [])
        for t in tgts:
            if isinstance(t, ast.Subscript) and isinstance(t.value, ast.Name) and t.value.id in alias and not rebound_before(t.value.id, n.lineno):
                out.append((n.lineno, ast.unparse(n)[:60], t.value.id))
        if isinstance(n, ast.Call):
            for kw in n.keywords:
                if kw.arg == 'out' and isinstance(kw.value, ast.Name) and kw.value.id in alias and not rebound_before(kw.value.id, n.lineno):
                    out.append((n.lineno, ast.unparse(n)[:60], kw.value.id))
    fd._vs_alias = alias
    return out


_VIEW_FUNCS = ('asarray', 'asanyarray', 'ascontiguousarray', 'asfortranarray', 'atleast_1d', 'atleast_2d', 'atleast_3d', 'real', 'imag', 'ravel', 'reshape', 'squeeze', 'transpose',
               'swapaxes', 'moveaxis', 'expand_dims', 'view')
_VIEW_ATTRS = ('real', 'imag', 'T', 'flat')


def _view_source(v):
    """name of the array that expression v is (or may be) a view of: the name itself, numpy calls and methods that hand back the same memory when they can (np.asarray of an
    array of the right type, np.real / np.imag / .real / .imag of a complex array, reshape / ravel / transpose / squeeze of a contiguous one), and basic indexing (slices, integers,
    Ellipsis, None).  With numpy arrays an in-place update of such a value writes into the source."""
    for _ in range(6):
        if isinstance(v, ast.Name):
            return v.id
        if isinstance(v, ast.Attribute) and v.attr in _VIEW_ATTRS:
            v = v.value; continue
        if isinstance(v, ast.Call):
            fn = ast.unparse(v.func)
            tail = fn.split('.')[-1]
            if tail in _VIEW_FUNCS:
                if fn.split('.')[0] in ('np', 'numpy') and v.args:
                    v = v.args[0]; continue
                if isinstance(v.func, ast.Attribute) and fn.split('.')[0] not in ('np', 'numpy'):
                    v = v.func.value; continue
            return None
        if isinstance(v, ast.Subscript):
            idx = v.slice.elts if isinstance(v.slice, ast.Tuple) else [v.slice]
            if any(isinstance(i_, ast.Slice) or (isinstance(i_, ast.Constant) and i_.value in (Ellipsis, None)) for i_ in idx) and \
                    all(isinstance(i_, ast.Slice) or (isinstance(i_, ast.Constant) and (i_.value in (Ellipsis, None) or isinstance(i_.value, int))) for i_ in idx):
                v = v.value; continue
            return None
        return None
    return None


def _escaping_names(fd):
    """names whose objects outlive the function: parameters, names occurring in return values, names put into an escaping container"""
    params = {a.arg for a in fd.args.args + fd.args.kwonlyargs} - {'self', 'cls'}
    nodes = []
    for st in fd.body: nodes.extend(ast.walk(st))
    escaping = set(params)
    for n in nodes:
        if isinstance(n, ast.Return) and n.value is not None:
            escaping |= {x.id for x in ast.walk(n.value) if isinstance(x, ast.Name)}
    for _ in range(4):
        grew = False
        for n in nodes:
            if isinstance(n, ast.Assign):
                for t in n.targets:
                    if isinstance(t, (ast.Subscript, ast.Attribute)) and isinstance(t.value, ast.Name) and t.value.id in escaping:
                        for x in ast.walk(n.value):
                            if isinstance(x, ast.Name) and x.id not in escaping:
                                escaping.add(x.id); grew = True
            if isinstance(n, ast.Call) and isinstance(n.func, ast.Attribute) and n.func.attr in ('append', 'extend', 'update', 'setdefault', 'insert') and isinstance(n.func.value, ast.Name) \
                    and n.func.value.id in escaping:
                for a_ in n.args:
                    for x in ast.walk(a_):
                        if isinstance(x, ast.Name) and x.id not in escaping:
                            escaping.add(x.id); grew = True
        if not grew: break
    return escaping


def _stored_alias_offenders(fd):
    """`x = C[k]` (or `x = C.attr`) followed by `x += ...`: with numpy arrays the augmented assignment updates the object that is still stored in C.  That is visible to the
    caller -- and makes array calls differ from scalar calls -- exactly when C outlives the function: C is a parameter, is returned, or is put into something that is."""
    nodes = []
    for st in fd.body: nodes.extend(ast.walk(st))
    escaping = _escaping_names(fd)
    # aliases of stored objects
    src = {}
    for n in nodes:
        if isinstance(n, ast.Assign) and len(n.targets) == 1 and isinstance(n.targets[0], ast.Name):
            v = n.value
            if isinstance(v, (ast.Subscript, ast.Attribute)) and isinstance(v.value, ast.Name):
                src.setdefault(n.targets[0].id, []).append((v.value.id, ast.unparse(v)[:50], n.lineno))
    out = []
    for n in nodes:
        if isinstance(n, ast.AugAssign) and isinstance(n.target, ast.Name) and n.target.id in src:
            for cont, txt, ln in src[n.target.id]:
                if cont in escaping and ln < n.lineno:
                    out.append((n.lineno, f'{ast.unparse(n)[:50]}` after `{n.target.id} = {txt}', cont))
    return out


def _name_alias_offenders(fd):
    """`x = y` (a plain copy of another local) followed by `x op= ...` while y is still needed: with numpy arrays x and y are one object, so y changes too.  y counts as still
    needed when it is read again after the copy -- in particular when the copy sits in a loop that y was computed in front of (the next iteration copies the modified y)."""
    nodes = []
    for st in fd.body: nodes.extend(ast.walk(st))
    loops = [n for n in nodes if isinstance(n, (ast.For, ast.While))]

    def loops_around(node):
        return [l for l in loops if any(x is node for x in ast.walk(l)) and l is not node]
    out = []
    copies = [n for n in nodes if isinstance(n, ast.Assign) and len(n.targets) == 1 and isinstance(n.targets[0], ast.Name) and isinstance(n.value, ast.Name)]
    for cp in copies:
        x, y = cp.targets[0].id, cp.value.id
        if x == y: continue
        augs = [n for n in nodes if isinstance(n, ast.AugAssign) and isinstance(n.target, ast.Name) and n.target.id == x and n.lineno >= cp.lineno]
        if not augs: continue
        # x rebound to a fresh value between the copy and the update?  (only the simplest pattern is recognised; anything else is reported)
        y_defs = [n for n in nodes if isinstance(n, ast.Assign) and any(isinstance(t, ast.Name) and t.id == y for t in n.targets)]
        y_is_fresh_each_time = any(l for l in loops_around(cp) if any(any(d_ is z for z in ast.walk(l)) for d_ in y_defs))      # y recomputed inside the same loop
        reads_after = [n for n in nodes if isinstance(n, ast.Name) and n.id == y and isinstance(n.ctx, ast.Load) and n is not cp.value and n.lineno > cp.lineno]
        in_loop_reuse = bool(loops_around(cp)) and not y_is_fresh_each_time
        if reads_after or in_loop_reuse:
            a_ = augs[0]
            why = 'is read again afterwards' if reads_after else 'is copied again on the next pass of the loop'
            out.append((a_.lineno, f'{ast.unparse(a_)[:50]}` after `{x} = {y}` while `{y}` {why}', y))
    return out


def _only_fresh_actuals(mod, funcs, helper, pname, depth=0, escaping_ok=True):
    """True iff `helper` is private to its module (leading underscore, not exported), is called somewhere in it, and at every call site the argument bound to `pname` is a name
    the caller bound to a fresh object (a literal, a constructor / numpy creation call), not one of the caller's own parameters or an alias of one (checked transitively)."""
    if not helper.name.startswith('_') or depth > 3:
        return False
    params = [a.arg for a in helper.args.args]
    if pname not in params:
        return False            # an alias of a parameter: keep it simple, report
    pos = params.index(pname)
    sites = []
    for caller in funcs:
        if caller is helper: continue
        for c in ast.walk(caller):
            if isinstance(c, ast.Call) and isinstance(c.func, ast.Name) and c.func.id == helper.name:
                sites.append((caller, c))
    if not sites:
        return False
    for caller, c in sites:
        actual = c.args[pos] if pos < len(c.args) else next((k.value for k in c.keywords if k.arg == pname), None)
        if not isinstance(actual, ast.Name):
            return False
        _inplace_offenders(caller)
        if actual.id in getattr(caller, '_vs_alias', set()):
            # the caller hands on (an alias of) one of its own parameters: fine only if the caller is itself such a private helper
            cparams = [a.arg for a in caller.args.args]
            if actual.id in cparams and _only_fresh_actuals(mod, funcs, caller, actual.id, depth + 1, escaping_ok):
                continue
            return False
        if not escaping_ok and actual.id in (_escaping_names(caller) - {a.arg for a in caller.args.args}):
            return False          # the caller hands the container on (returns it, stores it in its result)
        if not _name_is_fresh(funcs, caller, actual.id):
            return False
    return True


_FRESH_CALLS = ('dict', 'list', 'set', 'zeros', 'zeros_like', 'empty', 'empty_like', 'ones', 'ones_like', 'full', 'full_like', 'copy', 'array', 'Dict', 'nbDict', 'nbList', 'List')
_CACHE_DECORATORS = ('lru_cache', 'cache', 'cached', 'memoize', 'memoized', 'cached_property')


def _fresh_expr(funcs, scope, v, depth=0, pos=None):
    """v evaluates to an object nobody else holds: a literal, a constructor / numpy creation call, the result of arithmetic, a local name bound only to such values,
    or a call of a function of this module all of whose returns are such values and which is not memoised (a cached allocator hands the same object out twice)."""
    if depth > 4:
        return False
    if pos is not None:
        if isinstance(v, ast.Tuple) and pos < len(v.elts):
            return _fresh_expr(funcs, scope, v.elts[pos], depth)
        if isinstance(v, ast.Call) and isinstance(v.func, ast.Name):
            callee = next((f_ for f_ in funcs if f_.name == v.func.id), None)
            return callee is not None and _returns_fresh(funcs, callee, depth + 1, pos)
        if isinstance(v, ast.Name):
            return False
        return False
    if isinstance(v, (ast.Dict, ast.List, ast.Set, ast.Constant, ast.BinOp, ast.ListComp, ast.DictComp, ast.UnaryOp)):
        return True
    if isinstance(v, ast.Call):
        nm = ast.unparse(v.func).split('.')[-1]
        if nm in _FRESH_CALLS:
            return True
        if isinstance(v.func, ast.Name):
            callee = next((f_ for f_ in funcs if f_.name == v.func.id), None)
            return callee is not None and _returns_fresh(funcs, callee, depth + 1)
        return False
    if isinstance(v, ast.Name):
        return _name_is_fresh(funcs, scope, v.id, depth + 1)
    return False


def _name_is_fresh(funcs, scope, name, depth=0):
    if name in [a.arg for a in scope.args.args + scope.args.kwonlyargs]:
        return False
    found = False
    for a in ast.walk(scope):
        if not isinstance(a, ast.Assign):
            continue
        for t in a.targets:
            if isinstance(t, ast.Name) and t.id == name:
                found = True
                if not _fresh_expr(funcs, scope, a.value, depth):
                    return False
            elif isinstance(t, ast.Tuple):
                for i_, el in enumerate(t.elts):
                    if isinstance(el, ast.Name) and el.id == name:
                        found = True
                        if not _fresh_expr(funcs, scope, a.value, depth, pos=i_):
                            return False
    return found


def _returns_fresh(funcs, fdef, depth=0, pos=None):
    for d_ in fdef.decorator_list:
        dn = ast.unparse(d_.func if isinstance(d_, ast.Call) else d_).split('.')[-1]
        if dn in _CACHE_DECORATORS:
            return False
    rets = [r for r in ast.walk(fdef) if isinstance(r, ast.Return) and r.value is not None]
    return bool(rets) and all(_fresh_expr(funcs, fdef, r.value, depth, pos) for r in rets)


_LOW_PRECISION = ('float32', 'float16', 'single', 'half', 'csingle', 'complex64', 'f4', 'f2', 'c8', 'longfloat_', 'float_16')


def _is_dtype_position(tree, const):
    """a string constant counts only where a dtype is expected: dtype=..., .astype(...), np.dtype(...)"""
    for n_ in ast.walk(tree):
        if isinstance(n_, ast.keyword) and n_.arg == 'dtype' and n_.value is const: return True
        if isinstance(n_, ast.Call) and const in n_.args and isinstance(n_.func, ast.Attribute) and n_.func.attr in ('astype', 'dtype', 'view'): return True
    return False


def inplace_lint(chk, repo, rule, paths, floor_funcs=1):
    """repository rule (zero instances on the reference tree, positive fixture evaluated on every run): a numeric kernel never updates one of its arguments in place"""
    fx = ast.parse(_FIXTURE)
    fk = [n for n in fx.body if isinstance(n, ast.FunctionDef)]
    if not _inplace_offenders(fk[0]) or _inplace_offenders(fk[1]):
        raise AnalysisError('in-place lint: the positive / negative fixtures are not classified as expected')
    nfunc = 0
    for path in paths:
        mod = repo.by_path(path)
        offenders = []
        funcs = [fd for fd in ast.walk(mod.tree) if isinstance(fd, ast.FunctionDef)]
        for fd in funcs:
            if isinstance(fd, ast.FunctionDef):
                nfunc += 1
                for ln, txt, src_ in _name_alias_offenders(fd):
                    offenders.append(f'{fd.name} line {ln}: `{txt}: with array values the two names are one object and the update changes both')
                for ln, txt, cont in _stored_alias_offenders(fd):
                    if _only_fresh_actuals(mod, funcs, fd, cont, escaping_ok=False):
                        continue      # a private helper working on a container every caller builds itself and keeps to itself
                    offenders.append(f'{fd.name} line {ln}: `{txt}` updates in place an object that is still stored in `{cont}`, which outlives the function: with array values the stored entry changes too')
                for ln, txt, name in _inplace_offenders(fd):
                    if _only_fresh_actuals(mod, funcs, fd, name):
                        continue      # a private helper filling a container every caller creates itself: nobody's argument is modified
                    offenders.append(f'{fd.name} line {ln}: `{txt}` updates an argument (or a plain alias of one) in place; with array inputs the caller\'s array is modified and a second use sees the modified values')
        chk.ob(rule, f'{path}: no kernel updates one of its arguments in place (array calls must equal scalar calls, arguments stay intact)', not offenders, '; '.join(offenders[:3]), mod.rel(),
               key=f'{rule}|{path}', method='alias-aware augmented-assignment lint (fixture-checked)')
        # reduced precision: a float32 / float16 / complex64 array or cast in a double-precision kernel loses half the digits (results and round trips are no longer "to rounding")
        low = []
        for n_ in ast.walk(mod.tree):
            nm_ = n_.attr if isinstance(n_, ast.Attribute) else (n_.id if isinstance(n_, ast.Name) else (n_.value if isinstance(n_, ast.Constant) and isinstance(n_.value, str) else None))
            if nm_ in _LOW_PRECISION and not (isinstance(n_, ast.Constant) and not _is_dtype_position(mod.tree, n_)):
                low.append(f'line {getattr(n_, "lineno", "?")}: {nm_}')
        chk.ob(rule, f'{path}: no reduced-precision (float32 / float16 / complex64) array or cast', not low, '; '.join(low[:3]), mod.rel(), key=f'{rule}|{path}|precision', method='dtype lint')
    if nfunc < floor_funcs:
        raise AnalysisError(f'in-place lint for {rule}: only {nfunc} functions scanned')


def local_atoms_hook(mod, func, kinds=None):
    """`global` hook for fragment interpretation: a name that is a local variable or parameter of `func` (and not a module-level definition) but that the
    fragment's frame does not define evaluates to a free atom named after it.  A fragment that starts to read another local of its function is then still
    analysed (the atom shows up in the residual) instead of stopping the analysis."""
    names = {a.arg for a in func.args.args + func.args.kwonlyargs}
    for n in ast.walk(func):
        if isinstance(n, ast.Name) and isinstance(n.ctx, ast.Store):
            names.add(n.id)
    facts = getattr(mod, 'facts', None)
    if facts is not None:
        end = getattr(func, 'end_lineno', 10 ** 9)
        for (nm, ln), typ in facts.vars.items():
            if func.lineno <= ln <= end: names.add(nm)

    def hook(itp, m, nm):
        if m is mod and nm in names and nm not in mod.defs:
            return X.atom(f'local:{nm}', (kinds or {}).get(nm, 'pos'))
        return None
    return hook


# ---------------------------------------------------------------------------------------------- C integer widths of loop indices
_INT_WIDTH = {'char': 1, 'unsigned char': 1, 'signed char': 1, 'short': 2, 'unsigned short': 2, 'int': 4, 'unsigned int': 4, 'bint': 4, 'long': 8, 'unsigned long': 8, 'long long': 8,
              'unsigned long long': 8, 'size_t': 8, 'ssize_t': 8, 'Py_ssize_t': 8}


def _c_types(mod, func):
    types = {}
    for (nm, ln), info in mod.facts.funcs.items():
        if nm == func.name and ln == func.lineno:
            types.update(info['params'])
    end = getattr(func, 'end_lineno', 10 ** 9)
    for (nm, ln), typ in mod.facts.vars.items():
        if func.lineno <= ln <= end:
            types.setdefault(nm, typ)
    return types


def _guarded_limit(mod, fn, name, loop):
    """largest value `name` can have when `loop` runs, if the function raises for larger values beforehand: `if name > LIMIT: raise` / `if name >= LIMIT: raise` with LIMIT an
    integer constant (literal, or a local / module-level name assigned one)"""
    consts = {}
    for st in list(mod.tree.body) + [x for x in ast.walk(fn) if isinstance(x, ast.Assign)]:
        if isinstance(st, ast.Assign) and len(st.targets) == 1 and isinstance(st.targets[0], ast.Name) and isinstance(st.value, ast.Constant) and isinstance(st.value.value, int):
            consts.setdefault(st.targets[0].id, st.value.value)
    best = None
    for st in ast.walk(fn):
        if isinstance(st, ast.If) and getattr(st, 'lineno', 0) < getattr(loop, 'lineno', 0) and any(isinstance(b, ast.Raise) for b in st.body) and isinstance(st.test, ast.Compare) \
                and len(st.test.ops) == 1 and isinstance(st.test.left, ast.Name) and st.test.left.id == name and isinstance(st.test.ops[0], (ast.Gt, ast.GtE)):
            r = st.test.comparators[0]
            v = r.value if isinstance(r, ast.Constant) and isinstance(r.value, int) else (consts.get(r.id) if isinstance(r, ast.Name) else None)
            if v is not None:
                v = v if isinstance(st.test.ops[0], ast.Gt) else v - 1
                best = v if best is None else min(best, v)
    return best


def _guarded_limit_through_callers(mod, fn, name, depth=0):
    """the bound is a parameter of a helper function: its largest value is what the callers can pass.  Every call of the helper in its module must hand over a name that the
    caller has validated against a constant limit before the call (or, in turn, a parameter validated by the caller's callers); the answer is the largest such limit."""
    if depth > 3:
        return None
    params = [a.arg for a in fn.args.args]
    if name not in params:
        return None
    pos = params.index(name)
    if any(m_ in ('self',) for m_ in params[:1]):
        pos_call = pos - 1
    else:
        pos_call = pos
    sites = []
    for caller in [x for x in ast.walk(mod.tree) if isinstance(x, ast.FunctionDef) and x is not fn]:
        for c in ast.walk(caller):
            if isinstance(c, ast.Call) and ((isinstance(c.func, ast.Name) and c.func.id == fn.name) or (isinstance(c.func, ast.Attribute) and c.func.attr == fn.name)):
                sites.append((caller, c))
    if not sites:
        return None
    best = None
    for caller, c in sites:
        actual = c.args[pos_call] if 0 <= pos_call < len(c.args) else next((k.value for k in c.keywords if k.arg == name), None)
        if isinstance(actual, ast.Constant) and isinstance(actual.value, int):
            lim = actual.value
        elif isinstance(actual, ast.Name):
            lim = _guarded_limit(mod, caller, actual.id, c)
            if lim is None:
                lim = _guarded_limit_through_callers(mod, caller, actual.id, depth + 1)
        else:
            lim = None
        if lim is None:
            return None
        best = lim if best is None else max(best, lim)
    return best


def unsigned_negation_lint(chk, repo, rule, paths):
    """C arithmetic on unsigned integers is modular: `-n` of an `unsigned int n` is 2^32 - n, not a negative number, and stays so when it is then multiplied by a double.
    In the compiled sources no unary minus may be applied to a variable declared with an unsigned C integer type of the rank of int or above (narrower unsigned types are
    promoted to a signed int first and negate correctly)."""
    import glob, os
    nfn = 0
    for pat in paths:
        for path in sorted(glob.glob(os.path.join(repo.root, pat), recursive=True)):
            rel = os.path.relpath(path, repo.root)
            mod = repo.by_path(rel)
            if getattr(mod, 'facts', None) is None:
                continue
            offenders = []
            for fn in [x for x in ast.walk(mod.tree) if isinstance(x, ast.FunctionDef)]:
                nfn += 1
                types = _c_types(mod, fn)
                uns = {n_ for n_, t_ in types.items() if ' '.join(str(t_).replace('const ', '').split()) in ('unsigned int', 'unsigned long', 'unsigned long long', 'size_t', 'uint32_t', 'uint64_t')}          # (unsigned char / short are promoted to a signed int before the minus: no wrap)
                if not uns: continue
                for x in ast.walk(fn):
                    if isinstance(x, ast.UnaryOp) and isinstance(x.op, ast.USub) and isinstance(x.operand, ast.Name) and x.operand.id in uns:
                        offenders.append(f'{fn.name} line {x.lineno}: `-{x.operand.id}` with `{x.operand.id}` declared {types[x.operand.id]}: the negation wraps around (2^N - value)')
            chk.ob(rule, f'{rel}: no unary minus is applied to an unsigned C integer', not offenders, '; '.join(offenders[:3]), rel, key=f'{rule}|{rel}',
                   method='declared C types of locals and parameters (Cython front-end) x unary minus sites')
    if nfn < 5:
        raise AnalysisError(f'unsigned-negation lint for {rule}: only {nfn} functions scanned')


def index_width_lint(chk, repo, rule, paths):
    """In the compiled sources a `for i in range(n)` whose index is declared with a narrower C integer type than its bound wraps around (or never terminates) as soon as the bound
    exceeds the index type's range: every loop index must be at least as wide as every integer variable its bound is computed from."""
    import glob, os
    n_loops = 0
    for pat in paths:
        for path in sorted(glob.glob(os.path.join(repo.root, pat), recursive=True)):
            rel = os.path.relpath(path, repo.root)
            mod = repo.by_path(rel)
            if getattr(mod, 'facts', None) is None:
                continue
            for fn in [x for x in ast.walk(mod.tree) if isinstance(x, ast.FunctionDef)]:
                types = _c_types(mod, fn)
                loops = []
                for lp in [x for x in ast.walk(fn) if isinstance(x, ast.For)]:
                    if isinstance(lp.iter, ast.Call) and isinstance(lp.iter.func, ast.Name) and lp.iter.func.id in ('range', 'prange') and isinstance(lp.target, ast.Name):
                        loops.append((lp, lp.target.id, list(lp.iter.args), ast.unparse(lp.iter)[:50]))
                # counting while-loops: `while BOUND > i:` / `while i < BOUND:` with i advanced in the body
                for lp in [x for x in ast.walk(fn) if isinstance(x, ast.While)]:
                    t = lp.test
                    if isinstance(t, ast.Compare) and len(t.ops) == 1 and isinstance(t.ops[0], (ast.Lt, ast.LtE, ast.Gt, ast.GtE)):
                        stepped = {x.target.id for x in ast.walk(lp) if isinstance(x, ast.AugAssign) and isinstance(x.target, ast.Name)}
                        sides = [t.left, t.comparators[0]]
                        for idx_side, bound_side in ((sides[0], sides[1]), (sides[1], sides[0])):
                            if isinstance(idx_side, ast.Name) and idx_side.id in stepped:
                                loops.append((lp, idx_side.id, [bound_side], ast.unparse(t)[:50]))
                                break
                # secondary counters: integer variables advanced in the loop's own body (not in a nested loop) take as many values as the index does
                def own_steps(lp):
                    out = set()
                    def walk(body):
                        for st in body:
                            if isinstance(st, (ast.For, ast.While)): continue
                            if isinstance(st, ast.AugAssign) and isinstance(st.target, ast.Name) and isinstance(st.op, ast.Add): out.add(st.target.id)
                            for fld in ('body', 'orelse'):
                                if isinstance(st, (ast.If, ast.With, ast.Try)) and getattr(st, fld, None): walk(getattr(st, fld))
                    walk(lp.body)
                    return out
                extra = []
                for lp, idx_name, bound_exprs, shown in loops:
                    for nm2 in sorted(own_steps(lp) - {idx_name}):
                        extra.append((lp, nm2, bound_exprs, shown + f' (counter `{nm2}` advanced with it)'))
                for lp, idx_name, bound_exprs, shown in loops + extra:
                    it_ = ' '.join(types.get(idx_name, '').replace('const ', '').split())
                    wi = _INT_WIDTH.get(it_)
                    if wi is None:
                        continue
                    n_loops += 1
                    worst = None
                    for a_ in bound_exprs:
                        for x in ast.walk(a_):
                            if isinstance(x, ast.Name):
                                tb = ' '.join(types.get(x.id, '').replace('const ', '').split())
                                wb = _INT_WIDTH.get(tb)
                                if wb is not None and wb > wi and (worst is None or wb > worst[1]):
                                    worst = (x.id, wb, tb)
                    if worst is not None:
                        lim = _guarded_limit(mod, fn, worst[0], lp)
                        if lim is None:
                            lim = _guarded_limit_through_callers(mod, fn, worst[0])
                        if lim is not None and lim <= 2 ** (8 * wi) - 1:
                            worst = None          # the bound is validated against a limit the index type can hold before the loop runs
                    chk.ob(rule, f'{rel}::{fn.name}: loop index `{idx_name}` ({it_}) is at least as wide as its bound `{shown}` (or the bound is validated against a limit it can hold)', worst is None,
                           '' if worst is None else f'`{worst[0]}` is a {worst[2]} ({worst[1]} bytes), the index a {it_} ({wi} byte{"s" if wi > 1 else ""}): the index wraps before the bound is reached once `{worst[0]}` exceeds {2 ** (8 * wi) - 1}',
                           mod.where(lp), key=f'{rule}|{rel}::{fn.name}|{idx_name}|{shown[:40]}', method='declared C types of loop index and bound')
    chk.note_analysed('typed range-loops', n_loops)
    n_idx = _index_narrowing(chk, repo, rule, paths)
    chk.note_analysed('typed index variables', n_idx)
    return n_loops


def _index_narrowing(chk, repo, rule, paths):
    """A variable that is used inside a subscript (an offset into a buffer) and is assigned an expression built from wider integer variables holds the expression modulo its own
    range: the element addressed is then another one as soon as the wider value exceeds that range.  Every such offset variable must be at least as wide as the integer variables
    its value is computed from (unless the function validates them against a limit the variable can hold)."""
    import glob, os
    n = 0
    for pat in paths:
        for path in sorted(glob.glob(os.path.join(repo.root, pat), recursive=True)):
            rel = os.path.relpath(path, repo.root)
            mod = repo.by_path(rel)
            if getattr(mod, 'facts', None) is None:
                continue
            for fn in [x for x in ast.walk(mod.tree) if isinstance(x, ast.FunctionDef)]:
                types = _c_types(mod, fn)
                in_index = set()
                for sub in [x for x in ast.walk(fn) if isinstance(x, ast.Subscript)]:
                    for x in ast.walk(sub.slice):
                        if isinstance(x, ast.Name): in_index.add(x.id)
                for st in [x for x in ast.walk(fn) if isinstance(x, (ast.Assign, ast.AugAssign))]:
                    tg = st.targets[0] if isinstance(st, ast.Assign) and len(st.targets) == 1 else (st.target if isinstance(st, ast.AugAssign) else None)
                    if not isinstance(tg, ast.Name) or tg.id not in in_index:
                        continue
                    tt = ' '.join(types.get(tg.id, '').replace('const ', '').split())
                    wt = _INT_WIDTH.get(tt)
                    if wt is None or not isinstance(st.value, (ast.BinOp, ast.Name)):
                        continue
                    n += 1
                    worst = None
                    for x in ast.walk(st.value):
                        if isinstance(x, ast.Name):
                            tb = ' '.join(types.get(x.id, '').replace('const ', '').split())
                            wb = _INT_WIDTH.get(tb)
                            if wb is not None and wb > wt and (worst is None or wb > worst[1]):
                                worst = (x.id, wb, tb)
                    if worst is not None:
                        lim = _guarded_limit(mod, fn, worst[0], st)
                        if lim is None:
                            lim = _guarded_limit_through_callers(mod, fn, worst[0])
                        if lim is not None and lim <= 2 ** (8 * wt) - 1:
                            worst = None
                    shown = ast.unparse(st)[:60]
                    chk.ob(rule, f'{rel}::{fn.name}: offset variable `{tg.id}` ({tt}) is at least as wide as the integers of `{shown}`', worst is None,
                           '' if worst is None else f'`{worst[0]}` is a {worst[2]} ({worst[1]} bytes), `{tg.id}` a {tt} ({wt} byte{"s" if wt > 1 else ""}) used as an offset into a buffer: it holds the value modulo {2 ** (8 * wt)}',
                           mod.where(st), key=f'{rule}|{rel}::{fn.name}|offset {tg.id}|{shown[:40]}', method='declared C types of an offset variable and the integers it is computed from')
    return n


# ---------------------------------------------------------------------------------------------- dimensional homogeneity of a function's own arithmetic (unit inference)
def unit_lint(chk, repo, rule, mod, func, sources, label, assume=None):
    """Unit inference over the statements of `func`: variables get a unit (exponents of kg, m, s) from the parameters named in `sources` and from what they are computed
    from (products, quotients, element reads, copies; anything else is 'unknown' and checked nowhere).  A sum, difference or comparison whose two sides have *known, different*
    units -- in particular a dimensional quantity against a non-zero numeric literal -- is dimensionally inhomogeneous: the result then depends on the unit system the function
    happens to be working in (the solver runs the same code on dimensional and on non-dimensionalised inputs)."""
    UNK = None
    ONE = (0, 0, 0)

    def mul(a, b, sign=1):
        if a is UNK or b is UNK: return UNK
        return tuple(x + sign * y for x, y in zip(a, b))
    units = {k: tuple(v) for k, v in sources.items()}
    ptrs = set(sources)

    def unit_of(e):
        if isinstance(e, ast.Constant):
            if isinstance(e.value, (int, float)) and not isinstance(e.value, bool):
                return ONE if e.value != 0 else 'zero'
            return UNK
        if isinstance(e, ast.Name):
            return units.get(e.id, UNK)
        if isinstance(e, ast.Subscript):
            return unit_of(e.value)
        if isinstance(e, ast.UnaryOp) and isinstance(e.op, (ast.USub, ast.UAdd)):
            return unit_of(e.operand)
        if isinstance(e, ast.BinOp):
            # front-end artefacts: __cast__('T') * x and __addr__ * x are x
            if isinstance(e.left, ast.Call) and isinstance(e.left.func, ast.Name) and e.left.func.id in ('__cast__',): return unit_of(e.right)
            if isinstance(e.left, ast.Name) and e.left.id == '__addr__': return unit_of(e.right)
            a, b = unit_of(e.left), unit_of(e.right)
            if a == 'zero': a = b if isinstance(e.op, (ast.Add, ast.Sub)) else ONE
            if b == 'zero': b = a if isinstance(e.op, (ast.Add, ast.Sub)) else ONE
            if isinstance(e.op, ast.Mult): return mul(a, b)
            if isinstance(e.op, ast.Div): return mul(a, b, -1)
            if isinstance(e.op, (ast.Add, ast.Sub)):
                return a if (a is not UNK and a == b) else UNK
            if isinstance(e.op, ast.Pow) and isinstance(e.right, ast.Constant) and isinstance(e.right.value, int) and a is not UNK:
                return tuple(x * e.right.value for x in a)
            return UNK
        return UNK

    def show(u):
        if u == ONE: return 'dimensionless'
        return ' '.join(f'{n}^{p}' if p != 1 else n for n, p in zip(('kg', 'm', 's'), u) if p) or 'dimensionless'
    # statements on branches the assumed flag values exclude (`if nondimensionalize:` bodies when the dimensional mode is analysed) are left out
    dead = set()
    for n in ast.walk(func):
        if isinstance(n, ast.If) and assume:
            t = n.test; neg = False
            if isinstance(t, ast.UnaryOp) and isinstance(t.op, ast.Not): t = t.operand; neg = True
            if isinstance(t, ast.Name) and t.id in assume:
                val = bool(assume[t.id]) != neg
                for st in (n.orelse if val else n.body):
                    for x in ast.walk(st): dead.add(id(x))
    live = [n for n in ast.walk(func) if id(n) not in dead]
    # fixed point over assignments (flow-insensitive; a name bound to different known units becomes unknown)
    assigns = [n for n in live if isinstance(n, ast.Assign) and len(n.targets) == 1 and isinstance(n.targets[0], ast.Name)]
    conflict = set()
    for _ in range(6):
        changed = False
        for a_ in assigns:
            nm = a_.targets[0].id
            if nm in sources or nm in conflict: continue
            u = unit_of(a_.value)
            if u is UNK or u == 'zero': continue
            if nm in units and units[nm] != u:
                conflict.add(nm); units.pop(nm, None); changed = True
            elif nm not in units:
                units[nm] = u; changed = True
        if not changed: break
    bad = []
    n_checked = 0
    for n in live:
        pairs = []
        if isinstance(n, ast.BinOp) and isinstance(n.op, (ast.Add, ast.Sub)):
            pairs = [(n.left, n.right)]
        elif isinstance(n, ast.Compare):
            seq = [n.left] + list(n.comparators)
            pairs = list(zip(seq, seq[1:]))
        for l_, r_ in pairs:
            a, b = unit_of(l_), unit_of(r_)
            if a is UNK or b is UNK or a == 'zero' or b == 'zero': continue
            n_checked += 1
            if a != b:
                bad.append(f'line {n.lineno}: `{ast.unparse(n)[:70]}` combines [{show(a)}] with [{show(b)}]')
    chk.ob(rule, f'{label}: every sum, difference and comparison of quantities with known units is dimensionally homogeneous ({n_checked} checked)', not bad, '; '.join(bad[:3]), mod.where(func),
           key=f'{rule}|units|{func.name}', method='unit inference over the statements of the function')
    return n_checked


# ----------------------------------------------------------------------------------------------------------------- array twin of every interpreted call
class ArrayTwin:
    """Repeats every top-level `it.call` of a check with each symbolic numeric argument handed over as a numpy array (a mutable cell holding one generic element: `x = y` aliases,
    `x op= c` updates in place, `.copy()` is a new cell; interp.ArrBox) and demands
       (a) the returned values are, element for element, the values of the scalar call, and
       (b) every argument array still holds what the caller passed.
    One obligation per function (all its calls together).  The scalar result is what the check goes on with, so nothing else changes."""

    def __init__(self, chk, rule, it, decider, skip=(), prime=True):
        from ..core.interp import ArrBox, concrete
        from ..core import expr as X
        self.chk = chk; self.rule = rule; self.it = it; self.d = decider; self.skip = set(skip); self.prime = prime
        self.busy = False; self.res = {}      # (path, fname) -> [ncalls, problems, where]
        orig = it.call
        me = self

        def box(v, memo=None):
            if isinstance(v, X.Node) and concrete(v) is None:
                # one array object per distinct argument value: where the scalar call hands the very same number to two parameters (spin given as the mean motion
                # itself) the array call hands over the very same array, so that identity tests (`a is b`) come out alike in both
                if memo is not None:
                    if v.uid not in memo: memo[v.uid] = ArrBox(v)
                    return memo[v.uid]
                return ArrBox(v)
            return v

        def same(a, b, path='value'):
            if a is b and (isinstance(a, (dict, list, ArrBox)) or type(a).__name__ == 'Arr') and len(a if not isinstance(a, ArrBox) and type(a).__name__ != 'Arr' else [0]) > 0:
                return f'{path}: two separate calls return one and the same mutable object (a result kept between calls: the earlier result changes when the later one is written)'
            a = a.v if isinstance(a, ArrBox) else a; b = b.v if isinstance(b, ArrBox) else b
            if isinstance(a, (tuple, list)) and isinstance(b, (tuple, list)):
                if len(a) != len(b): return f'{path}: {len(b)} elements instead of {len(a)}'
                for i, (x, y) in enumerate(zip(a, b)):
                    r = same(x, y, f'{path}[{i}]')
                    if r: return r
                return None
            if isinstance(a, dict) and isinstance(b, dict):
                if set(a) != set(b): return f'{path}: keys differ'
                for k in a:
                    r = same(a[k], b[k], f'{path}[{k!r}]')
                    if r: return r
                return None
            na = isinstance(a, (X.Node, int, Fraction)) and not isinstance(a, bool); nb = isinstance(b, (X.Node, int, Fraction)) and not isinstance(b, bool)
            if na and nb:
                if X.lift(a) is X.lift(b): return None          # the very same expression (hash-consed)
                return None if me.d.equal(X.lift(a), X.lift(b)) else f'{path}: array call gives {me.d.describe(X.lift(b), X.lift(a))}'
            if na != nb:
                return f'{path}: {type(b).__name__} instead of {type(a).__name__}'
            return None        # objects, strings, None: not compared

        def call(mod, fnode, args=(), kwargs=None, **k):
            if me.busy or fnode.name in me.skip or not mod.rel().endswith('.py'):        # C-typed arguments of .pyx functions are values, not arrays
                return orig(mod, fnode, args, kwargs, **k)
            me.busy = True
            try:
                args = list(args); kwargs = dict(kwargs or {})
                out = orig(mod, fnode, list(args), dict(kwargs), **k)
                # the second call is made at *other* values (every argument that is a plain symbol is replaced by a primed copy): a result remembered from the first call
                # (a cache keyed on part of the arguments, a buffer kept between calls) then shows up as a difference
                ren = {}
                for v in (list(args) + list(kwargs.values())) if me.prime else []:
                    if isinstance(v, X.Node) and v.op == 'atom' and not v.val[0].startswith(('const_', 'pi', 'float_')):
                        ren.setdefault(v.val[0], X.atom(v.val[0] + "'", v.val[1]))

                def resub(v):
                    if isinstance(v, ArrBox): return ArrBox(resub(v.v))
                    if isinstance(v, X.Node): return X.subst(v, ren)
                    if isinstance(v, tuple): return tuple(resub(x_) for x_ in v)
                    if isinstance(v, list): return [resub(x_) for x_ in v]
                    if isinstance(v, dict): return {k_: resub(x_) for k_, x_ in v.items()}
                    return v
                if ren:
                    pargs = [resub(v) for v in args]; pkw = {kk: resub(v) for kk, v in kwargs.items()}
                    expected = resub(out)
                else:
                    pargs = list(args); pkw = dict(kwargs); expected = out
                bmemo = {}
                bargs = [box(v, bmemo) for v in pargs]; bkw = {kk: box(v, bmemo) for kk, v in pkw.items()}
                boxes = [(f'argument {i + 1}', o, b) for i, (o, b) in enumerate(zip(pargs, bargs)) if b is not o] + [(f'argument {kk}', pkw[kk], bkw[kk]) for kk in pkw if bkw[kk] is not pkw[kk]]
                rec = me.res.setdefault((mod.rel(), fnode.name), [0, [], mod.where(fnode)])
                if not boxes:
                    return out
                old = getattr(it, 'array_mode', False)
                it.array_mode = True
                try:
                    out_a = orig(mod, fnode, bargs, bkw, **k)
                finally:
                    it.array_mode = old
                rec[0] += 1
                r = same(expected, out_a)
                if r: rec[1].append(r)
                for lab, o, b in boxes:
                    if b.v is not o and not me.d.equal(b.v, o):
                        rec[1].append(f'{lab} is modified in place (the caller\'s array holds {X.show(b.v)[:60]} afterwards)')
                return out
            finally:
                me.busy = False
        it.call = call

    def finish(self, floor=1):
        self.it.__dict__.pop('call', None)        # later calls of the check are plain again
        n = 0
        for (path, fname), (nc, probs, where) in sorted(self.res.items()):
            if nc == 0: continue
            n += 1
            self.chk.ob(self.rule, f'{path}:{fname}: with array arguments every returned value is the scalar value element for element, and the argument arrays are left intact ({nc} calls)',
                        not probs, '; '.join(list(dict.fromkeys(probs))[:3]), where, key=f'{self.rule}|{path}|{fname}',
                        method='second interpretation in array mode (arrays as mutable cells) + GF(p^2) PIT')
        if n < floor:
            raise AnalysisError(f'array twin for {self.rule}: only {n} functions had array-valued calls')


# ----------------------------------------------------------------------------------------------------------------- first-order rounding count
def rounding_count(node, exact_atoms=()):
    """First-order forward error bound of an extracted expression evaluated in binary floating point: returns K such that computed = exact * (1 + theta), |theta| <= K u + O(u^2)
    (u = 2^-53), or None when the expression is not of a form whose conditioning is bounded for all positive inputs (a difference or a sum of terms of unknown sign: cancellation;
    exp / log / trigonometric functions of the inputs).  Inputs are exact; constants that are not small dyadic rationals (pi, G, decimal literals) carry one rounding.
    Rules: x*y, x/y: K_x + K_y + 1;  x^n: |n| K_x + 1;  sqrt: K/2 + 1;  cbrt: K/3 + 1;  x^p (constant p): |p| K_x + 2;  sum of terms of one sign: max K + 1."""
    from ..core.regions import sign_of, POS, NEG
    from fractions import Fraction as Fr
    memo = {}

    def exact_const(v):
        v = Fr(v)
        d = v.denominator
        return (d & (d - 1)) == 0 and abs(v.numerator) < 2 ** 53 and d < 2 ** 60

    def k(n):
        if n.uid in memo: return memo[n.uid]
        op = n.op
        if op == 'const':
            r = Fr(0) if exact_const(n.val) else Fr(1)
        elif op == 'atom':
            r = Fr(0) if (n.val[0] in exact_atoms or not (n.val[0] in ('pi',) or n.val[0].startswith('const_'))) else Fr(1)
        elif op in ('mul', 'div') and any(t.op == ('div' if op == 'mul' else 'mul') and any(u.uid == n.args[1 - i_].uid for u in (t.args[1:] if op == 'mul' else t.args)) for i_, t in enumerate(n.args) if (op == 'mul' or i_ == 0)):
            # (x / c) * c and (x * c) / c with the very same c: whatever error c carries cancels, two roundings remain
            i_ = next(i_ for i_, t in enumerate(n.args) if (op == 'mul' or i_ == 0) and t.op == ('div' if op == 'mul' else 'mul') and any(u.uid == n.args[1 - i_].uid for u in (t.args[1:] if op == 'mul' else t.args)))
            inner = n.args[i_]; c_ = n.args[1 - i_]
            rest = inner.args[0] if op == 'mul' else next(u for u in inner.args if u.uid != c_.uid) if any(u.uid != c_.uid for u in inner.args) else inner.args[0]
            a = k(rest)
            r = None if a is None or k(c_) is None else a + 2
        elif op in ('mul', 'div'):
            a, b = k(n.args[0]), k(n.args[1])
            r = None if a is None or b is None else a + b + 1
            if r is not None and any(t.op == 'const' and exact_const(t.val) and abs(Fr(t.val)).numerator in (1,) and (abs(Fr(t.val)).denominator & (abs(Fr(t.val)).denominator - 1)) == 0 for t in n.args):
                r = a + b          # scaling by a power of two is exact
        elif op == 'powi':
            a = k(n.args[0])
            r = None if a is None else abs(n.val) * a + (0 if abs(n.val) == 1 else 1)
        elif op == 'add':
            a, b = k(n.args[0]), k(n.args[1])
            sa, sb = sign_of(n.args[0]), sign_of(n.args[1])
            if a is None or b is None or not ((sa == POS and sb == POS) or (sa == NEG and sb == NEG)):
                r = None
            else:
                r = max(a, b) + 1
        elif op == 'fn' and n.val in ('sqrt', 'cbrt') and len(n.args) == 1:
            a = k(n.args[0])
            r = None if a is None else a / (2 if n.val == 'sqrt' else 3) + 1
        elif op == 'fn' and n.val == 'exp' and len(n.args) == 1 and n.args[0].op == 'mul':
            # x^p written as exp(p log x) with a constant p: |p| K_x + 2
            r = None
            for i_ in (0, 1):
                c_, l_ = n.args[0].args[i_], n.args[0].args[1 - i_]
                if c_.op == 'const' and l_.op == 'fn' and l_.val == 'log':
                    a = k(l_.args[0])
                    r = None if a is None else abs(Fr(c_.val)) * a + 2
        elif op == 'fn' and n.val in ('abs', 'real') and len(n.args) == 1:
            r = k(n.args[0])
        else:
            r = None
        memo[n.uid] = r
        return r
    return k(node)


# ----------------------------------------------------------------------------------------------------------------- single-precision intermediates in the compiled sources
def precision_lint(chk, repo, rule, paths, floor_funcs=5):
    """In the compiled sources every quantity is a C double (or double complex).  A local variable or parameter declared `float` (C single precision, 24-bit significand) that takes
    part in arithmetic narrows whatever passes through it to ~1e-8 relative accuracy: results are no longer accurate, and scaled arrays no longer restored, to a few ulp.  Module-level
    `cdef float` thresholds that are only compared against are not arithmetic and are left alone."""
    import glob, os
    nf = 0
    for pat in paths:
        for path in sorted(glob.glob(os.path.join(repo.root, pat), recursive=True)):
            rel = os.path.relpath(path, repo.root)
            mod = repo.by_path(rel)
            if getattr(mod, 'facts', None) is None:
                continue
            offenders = []
            for fn in [x for x in ast.walk(mod.tree) if isinstance(x, ast.FunctionDef)]:
                nf += 1
                types = _c_types(mod, fn)
                singles = {n_ for n_, t_ in types.items() if ' '.join(str(t_).replace('const ', '').split()).split('[')[0].strip(' *&') in ('float', 'float complex', 'np.float32_t', 'float32_t', 'npy_float32')}
                if not singles:
                    continue
                used = set()
                for x in ast.walk(fn):
                    if isinstance(x, (ast.BinOp, ast.AugAssign, ast.UnaryOp)):
                        for y in ast.walk(x):
                            if isinstance(y, ast.Name) and y.id in singles: used.add(y.id)
                    if isinstance(x, ast.Assign) and any(isinstance(t_, ast.Name) and t_.id in singles for t_ in x.targets) and not isinstance(x.value, ast.Constant):
                        used |= {t_.id for t_ in x.targets if isinstance(t_, ast.Name) and t_.id in singles}
                for n_ in sorted(used):
                    offenders.append(f'{fn.name}: `{n_}` is declared {types[n_]} (single precision) and takes part in the arithmetic')
            chk.ob(rule, f'{rel}: no single-precision (C float) variable takes part in the arithmetic', not offenders, '; '.join(offenders[:3]), rel, key=f'{rule}|{rel}',
                   method='declared C types of locals and parameters (Cython front-end) x uses in arithmetic')
    if nf < floor_funcs:
        raise AnalysisError(f'precision lint for {rule}: only {nf} functions scanned')



_BOUNDED_ROLES = ('e', 'e2', 'eccentricity', 'obliquity', 'inclination', 'colatitude', 'longitude', 'melt_fraction', 'alpha', 'zeta', 'i', 'cos_i', 'sin_i')
_BOUNDED_PREFIXES = ('cos_', 'sin_', 'eccentricity', 'obliquity', 'inclination')
_SMALL_INT_ROLES = ('order_l', 'degree_l', 'degree', 'order', 'harmonic', 'index', 'num_', 'n_', '_i', 'count', 'max_l', 'min_l')


def int_power_lint(chk, repo, rule, paths, floor_funcs=1):
    """numba compiles a function for the types it is called with: an argument given as an integer (a Python int, a numpy integer scalar or array -- representations the
    property does not set apart from floats) stays an int64 until it meets a float.  `x ** k` with an integer literal k binds tighter than the surrounding products, so it is
    evaluated on the bare integer: for k < 0 the result is 0 (integer arithmetic; 1 // x**|k|), for k >= 3 it wraps around silently once |x| exceeds 2^(63/k) (2.1e6 for k = 3:
    a mantle thickness in metres).  Reported: in every numba-compiled function of the given sources, an integer-literal power with k < 0 or k >= 3 whose base is a parameter, or a
    product / sum / integer power of parameters and integer literals, unless the base is a small integer by its role (a harmonic degree, an index, a count).  `x ** 2` of a
    physical quantity is left alone (it needs |x| > 3e9), a float literal exponent (`** 3.`), a float factor inside the base or a true division make the base a float."""
    import glob, os
    nf = 0
    for pat in paths:
        for path in sorted(glob.glob(os.path.join(repo.root, pat), recursive=True)):
            rel = os.path.relpath(path, repo.root)
            mod = repo.by_path(rel)
            offenders = []
            for fn in [x for x in ast.walk(mod.tree) if isinstance(x, ast.FunctionDef)]:
                # np.reciprocal keeps the dtype of its argument in compiled and interpreted code alike: the reciprocal of an integer (array) is 0
                pr_ = {a.arg for a in fn.args.args + fn.args.kwonlyargs}
                for c_ in ast.walk(fn):
                    if isinstance(c_, ast.Call) and ast.unparse(c_.func).split('.')[-1] == 'reciprocal' and c_.args and isinstance(c_.args[0], ast.Name) and c_.args[0].id in pr_ \
                            and not any(role in c_.args[0].id for role in _SMALL_INT_ROLES):
                        offenders.append(f'{fn.name} line {c_.lineno}: `{ast.unparse(c_)[:50]}` is 0 in integer arithmetic when {c_.args[0].id} is given as an integer (np.reciprocal keeps the integer type)')
                if not any('jit' in ast.unparse(d_) for d_ in fn.decorator_list):
                    continue
                nf += 1
                params = {a.arg for a in fn.args.args + fn.args.kwonlyargs}
                floaty = set()          # locals known to hold floats
                inty = set(params)      # names that may hold an integer when the arguments are integers
                assigns = [n_ for n_ in ast.walk(fn) if isinstance(n_, ast.Assign) and len(n_.targets) == 1 and isinstance(n_.targets[0], ast.Name)]

                def maybe_int(e):
                    if isinstance(e, ast.Constant): return isinstance(e.value, int) and not isinstance(e.value, bool)
                    if isinstance(e, ast.Name): return e.id in inty
                    if isinstance(e, ast.UnaryOp): return maybe_int(e.operand)
                    if isinstance(e, ast.BinOp):
                        if isinstance(e.op, ast.Div): return False
                        if isinstance(e.op, ast.Pow): return maybe_int(e.left) and isinstance(e.right, (ast.Constant, ast.UnaryOp)) and maybe_int(e.right)
                        if isinstance(e.op, (ast.Add, ast.Sub, ast.Mult, ast.FloorDiv, ast.Mod)): return maybe_int(e.left) and maybe_int(e.right)
                    return False
                for _ in range(4):
                    for a_ in sorted(assigns, key=lambda n_: n_.lineno):
                        if maybe_int(a_.value): inty.add(a_.targets[0].id)
                for x in ast.walk(fn):
                    if not (isinstance(x, ast.BinOp) and isinstance(x.op, ast.Pow)):
                        continue
                    r = x.right; k = None
                    if isinstance(r, ast.Constant) and isinstance(r.value, int) and not isinstance(r.value, bool): k = r.value
                    elif isinstance(r, ast.UnaryOp) and isinstance(r.op, ast.USub) and isinstance(r.operand, ast.Constant) and isinstance(r.operand.value, int) and not isinstance(r.operand.value, bool): k = -r.operand.value
                    if k is None or (0 <= k < 3) or not maybe_int(x.left):
                        continue
                    names = {n_.id for n_ in ast.walk(x.left) if isinstance(n_, ast.Name)}
                    if names and all(nm_ in _BOUNDED_ROLES or any(nm_.startswith(b_) for b_ in _BOUNDED_PREFIXES) for nm_ in names):
                        continue              # eccentricities, angles, fractions: bounded by a few units, so is every power the tables take of them
                    if names and all(any(role in nm_ or nm_ in ('l', 'm', 'p', 'q', 'n', 'k', 'i', 'j') for role in _SMALL_INT_ROLES) for nm_ in names):
                        continue
                    if not names:
                        continue
                    what = 'is 0 in integer arithmetic' if k < 0 else f'wraps around in int64 once the base exceeds {2 ** (63 / k):.3g}'
                    offenders.append(f'{fn.name} line {x.lineno}: `{ast.unparse(x)[:50]}` {what} when {", ".join(sorted(names))} are given as integers')
                # the same power written as a repeated product: x * x * x evaluated left to right on integers (a float factor in front makes the rest float)
                left_children = {id(n_.left) for n_ in ast.walk(fn) if isinstance(n_, ast.BinOp) and isinstance(n_.op, ast.Mult)}
                for x in ast.walk(fn):
                    if not (isinstance(x, ast.BinOp) and isinstance(x.op, ast.Mult)) or id(x) in left_children:
                        continue
                    chain = []
                    y = x
                    while isinstance(y, ast.BinOp) and isinstance(y.op, ast.Mult):
                        chain.append(y.right); y = y.left
                    chain.append(y); chain.reverse()
                    seen = {}
                    for fct in chain:
                        if not maybe_int(fct):
                            break
                        if isinstance(fct, ast.Name):
                            seen[fct.id] = seen.get(fct.id, 0) + 1
                            nm_ = fct.id
                            if seen[nm_] == 3 and nm_ not in _BOUNDED_ROLES and not any(nm_.startswith(b_) for b_ in _BOUNDED_PREFIXES) \
                                    and not any(role in nm_ or nm_ in ('l', 'm', 'p', 'q', 'n', 'k', 'i', 'j') for role in _SMALL_INT_ROLES):
                                offenders.append(f'{fn.name} line {x.lineno}: `{ast.unparse(x)[:50]}` (a third power written as a product) wraps around in int64 once {nm_} exceeds 2.1e+06 when it is given as an integer')
            chk.ob(rule, f'{rel}: no integer-literal power (k < 0 or k >= 3) is taken of a quantity that stays an integer for integer arguments (numba types arithmetic by its arguments)', not offenders,
                   '; '.join(offenders[:3]), rel, key=f'{rule}|{rel}', method='syntactic type flow in numba-compiled functions (float literals, true division and numpy calls make a float)')
    if nf < floor_funcs:
        raise AnalysisError(f'integer-power lint for {rule}: only {nf} numba-compiled functions scanned')


def strided_view_lint(chk, repo, rule, paths, floor_views=0):
    """A typed memoryview declared `T[::1]` accepts only C-contiguous buffers (Cython raises ValueError for anything else), so `&view[0]` followed by pointer arithmetic `ptr[i]`
    walks the elements of the view.  Declared `T[:]` (or `T[:, :]`, ...) the same view accepts strided buffers -- `a[::2]`, a column of a 2-d array -- and `ptr[i]` then reads and writes
    memory the view does not own: the array helper no longer agrees with the scalar call element by element, and writes land outside the caller's elements.  Every memoryview whose
    address is taken must therefore be declared contiguous in its last dimension."""
    import glob, os
    nviews = 0
    for pat in paths:
        for path in sorted(glob.glob(os.path.join(repo.root, pat), recursive=True)):
            rel = os.path.relpath(path, repo.root)
            mod = repo.by_path(rel)
            if getattr(mod, 'facts', None) is None:
                continue
            offenders = []
            for fn in [x for x in ast.walk(mod.tree) if isinstance(x, ast.FunctionDef)]:
                types = _c_types(mod, fn)
                views = {}
                for n_, t_ in types.items():
                    t_ = str(t_)
                    if '[' in t_ and ':' in t_:
                        dims = [d_.replace(' ', '') for d_ in t_[t_.index('[') + 1:t_.rindex(']')].split(',')]
                        views[n_] = (t_, dims)
                if not views:
                    continue
                taken = set()
                for x in ast.walk(fn):
                    # `&view[...]` is rewritten to `__addr__ * view[...]`
                    if isinstance(x, ast.BinOp) and isinstance(x.op, ast.Mult) and isinstance(x.left, ast.Name) and x.left.id == '__addr__':
                        y = x.right
                        while isinstance(y, ast.BinOp) and isinstance(y.op, ast.Mult) and isinstance(y.left, ast.Call) and getattr(y.left.func, 'id', '') == '__cast__':
                            y = y.right
                        if isinstance(y, ast.Subscript) and isinstance(y.value, ast.Name) and y.value.id in views:
                            taken.add(y.value.id)
                for n_ in sorted(taken):
                    nviews += 1
                    t_, dims = views[n_]
                    if dims[-1] != '::1' and not (len(dims) > 1 and dims[0] == '::1'):
                        offenders.append(f'{fn.name}: `{n_}` is declared {t_} (strided buffers accepted) and `&{n_}[..]` is handed on as a unit-stride pointer')
            chk.ob(rule, f'{rel}: every memoryview whose address is taken is declared contiguous (`[::1]`)', not offenders, '; '.join(offenders[:3]), rel, key=f'{rule}|{rel}',
                   method='declared C types of parameters and locals (Cython front-end) x address-of sites')
    if nviews < floor_views:
        raise AnalysisError(f'strided-view lint for {rule}: only {nviews} address-of sites on memoryviews found (expected at least {floor_views})')


# ------------------------------------------------------------------------------------------------ who may write a registry
_MUTATORS = ('append', 'extend', 'update', 'insert', 'add', 'setdefault', 'pop', 'popitem', 'clear', 'remove', 'sort', 'reverse', 'discard', '__setitem__', '__delitem__')


def registry_writers(chk, rule, repo, owner_relpath, names, floor=None):
    """The checks read a lookup table as the owner module's top-level statements build it.  That is what every caller sees only if nothing else writes it: no other module
    (through an imported name or an attribute of the owner module) and no function body of the owner may store into, delete from or call a mutating method on it."""
    import os

    def chain(x):
        """names along a subscript / attribute chain: registry[22], helper.registry[22][2], ..."""
        out = []
        while isinstance(x, (ast.Subscript, ast.Attribute, ast.Call)):
            if isinstance(x, ast.Attribute): out.append(x.attr)
            x = x.value if not isinstance(x, ast.Call) else x.func
        if isinstance(x, ast.Name): out.append(x.id)
        return out
    names = set(names)
    found = {n_: [] for n_ in names}
    nmods = 0
    for dotted in repo.all_modules():
        rel = dotted.replace('.', '/')
        path = None
        for cand in (rel + '.py', rel + '/__init__.py'):
            if os.path.exists(os.path.join(repo.root, cand)): path = cand
        if path is None:
            continue                       # .pyx: cannot reach a Python dict of another module without going through the interpreter; the pyx front-end does not import them
        try:
            tree = ast.parse(open(os.path.join(repo.root, path)).read())
        except SyntaxError:
            continue
        nmods += 1
        owner = path == owner_relpath
        # aliases: `from owner import registry as r`, `r2 = registry`
        alias = {n_: n_ for n_ in names}
        for n_ in ast.walk(tree):
            if isinstance(n_, ast.ImportFrom):
                for a_ in n_.names:
                    if a_.name in names: alias[a_.asname or a_.name] = a_.name
            elif isinstance(n_, ast.Assign) and len(n_.targets) == 1 and isinstance(n_.targets[0], ast.Name) and not owner:
                c_ = chain(n_.value)
                if c_ and len(c_) <= 2 and alias.get(c_[0]) in names and not isinstance(n_.value, ast.Call):
                    alias[n_.targets[0].id] = alias[c_[0]]

        def scan(body, in_func):
            for st in body:
                if isinstance(st, (ast.FunctionDef, ast.AsyncFunctionDef)):
                    scan(st.body, True); continue
                if isinstance(st, ast.ClassDef):
                    scan(st.body, in_func); continue
                for n_ in ast.walk(st):
                    tgt = None
                    if isinstance(n_, (ast.FunctionDef, ast.Lambda)): continue
                    if isinstance(n_, ast.Call) and isinstance(n_.func, ast.Attribute) and n_.func.attr in _MUTATORS: tgt = n_.func.value
                    elif isinstance(n_, (ast.Subscript, ast.Attribute)) and isinstance(n_.ctx, (ast.Store, ast.Del)): tgt = n_.value
                    if tgt is None: continue
                    for nm in chain(tgt):
                        real = alias.get(nm)
                        if real in names and (not owner or in_func):
                            found[real].append(f'{path}:{n_.lineno} `{ast.unparse(n_)[:70]}`')
        scan(tree.body, False)
    for n_ in sorted(names):
        chk.ob(rule, f'{owner_relpath}:{n_} is written only by the top-level statements of the module that defines it (what the checks read is what every caller sees)', not found[n_],
               '; '.join(found[n_][:3]), owner_relpath, key=f'{rule}|writers|{n_}', method=f'who-may-write scan over {nmods} modules (stores, deletes and mutating calls on the name, its aliases and attributes)')
    if nmods < 100:
        raise AnalysisError(f'registry writer scan: only {nmods} modules parsed')



# ------------------------------------------------------------------------------------------------ a sibling property's rules under this property's name
class RuleAlias:
    """Hands a check object to the rule functions of a sibling property: obligations of the selected rules are recorded under `new_rule` (key: new_rule|old key), all
    others -- and the sibling's floors and assumptions -- are dropped.  `keep(rule, instance)` selects."""
    def __init__(self, chk, new_rule, keep):
        self._chk = chk; self._new = new_rule; self._keep = keep; self.count = 0

    def __getattr__(self, name):
        return getattr(self._chk, name)

    def ob(self, rule, instance, ok, detail='', where='', key=None, method=''):
        if not self._keep(rule, instance):
            return ok
        self.count += 1
        return self._chk.ob(self._new, f'[{rule}] {instance}', ok, detail, where, key=f'{self._new}|{key if key is not None else rule + "|" + instance}', method=method)

    def floor(self, rule, n): pass
    def assume(self, text): pass

    def undecide(self, rule, instance, why):
        if self._keep(rule, instance): self._chk.undecide(self._new, f'[{rule}] {instance}', why)



# ------------------------------------------------------------------------------------------------ intermediates that leave the range of doubles although the result is in it
def unrepresentable_intermediates(node, env):
    """Evaluates every sub-expression of an extracted expression in extended-range arithmetic (mpmath: 60 digits, unbounded exponent) at the given atom values.  When the value
    of the whole expression is an ordinary double (zero, or between the smallest normal and the largest finite double), every product, quotient, power and exponential it is built
    from must be one too: an intermediate beyond 1.8e308 is computed as inf (and inf * 0 as NaN), one below 2.2e-308 loses its digits.  -> [(sub-expression text, value, what)]."""
    import mpmath as mp
    mp.mp.dps = 60
    DMAX = mp.mpf('1.7976931348623157e308'); DMIN = mp.mpf('2.2250738585072014e-308')
    memo = {}

    def ev(n):
        stack = [n]
        while stack:
            x = stack[-1]
            if x.uid in memo: stack.pop(); continue
            pend = [a for a in x.args if a.uid not in memo]
            if pend: stack.extend(pend); continue
            stack.pop()
            memo[x.uid] = one(x)
        return memo[n.uid]

    def one(x):
        a = [memo[c.uid] for c in x.args]
        if x.op == 'const': return mp.mpf(x.val.numerator) / mp.mpf(x.val.denominator) if hasattr(x.val, 'numerator') else mp.mpmathify(x.val)
        if x.op == 'I': return mp.mpc(0, 1)
        if x.op == 'atom':
            if x.val[0] == 'pi': return mp.pi
            if x.val[0] not in env: raise AnalysisError(f'no value for the atom {x.val[0]}')
            return mp.mpmathify(env[x.val[0]])
        if x.op == 'add': return mp.fsum(a)
        if x.op == 'mul': return mp.fprod(a)
        if x.op == 'div': return a[0] / a[1]
        if x.op == 'powi': return a[0] ** x.val
        if x.op == 'pow': return a[0] ** a[1]
        if x.op == 'fn':
            f = {'exp': mp.exp, 'log': mp.log, 'sqrt': mp.sqrt, 'abs': abs, 'sin': mp.sin, 'cos': mp.cos, 'tan': mp.tan, 'real': mp.re, 'imag': mp.im, 'cbrt': mp.cbrt, 'sign': mp.sign}.get(x.val)
            if f is None: raise AnalysisError(f'extended-range evaluation: function {x.val} is not modelled')
            return f(a[0])
        if x.op == 'cmp':
            d_ = mp.re(a[0] - a[1])
            return mp.mpf(1 if {'<': d_ < 0, '<=': d_ <= 0, '>': d_ > 0, '>=': d_ >= 0, '==': a[0] == a[1], '!=': a[0] != a[1]}[x.val] else 0)
        raise AnalysisError(f'extended-range evaluation: node {x.op} is not modelled')
    total = ev(node)
    at = abs(total)
    if not (at == 0 or DMIN <= at <= DMAX):
        return []                      # the result itself is outside the doubles: nothing an implementation could do about it
    out = []; seen = set()

    def walk(n):
        # a product / quotient / sum whose own value is an ordinary double, but one of whose operands is not: the operand is computed as inf or loses its digits and the
        # ordinary value is not what comes out.  (An operand that vanishes inside a sum of ordinary size is harmless: a fully decayed isotope contributes nothing.)
        stack = [n]; vis = set()
        while stack:
            x = stack.pop()
            if x.uid in vis: continue
            vis.add(x.uid)
            v = abs(memo[x.uid])
            ordinary = v == 0 or DMIN <= v <= DMAX
            if ordinary and x.op in ('mul', 'div', 'add', 'powi', 'pow'):
                for a_ in x.args:
                    va = abs(memo[a_.uid])
                    what = None
                    if va > DMAX: what = 'overflows (beyond 1.8e308: computed as inf)'
                    elif 0 < va < DMIN and x.op in ('mul', 'div') and v >= DMIN: what = 'is below the smallest normal double (2.2e-308: its digits are lost or it is flushed to zero) although the product it enters is of ordinary size'
                    if what:
                        t = X.show(a_)[:70]
                        if t not in seen:
                            seen.add(t); out.append((t, mp.nstr(va, 5), what))
            stack.extend(x.args)
    walk(node)
    return out
