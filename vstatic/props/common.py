"""helpers shared by property modules"""
from __future__ import annotations
import ast
from ..core import expr as X
from ..core.report import AnalysisError


def eps_mask(node, pt=None):
    """float_eps is an infinitesimal: |x| > eps is true unless x is exactly 0 at the (possibly pinned) sample point"""
    a, b = node.args
    def is_eps(n): return n.op == 'atom' and n.val[0] == 'float_eps'
    if is_eps(b): other, flip = a, False
    elif is_eps(a): other, flip = b, True
    else: return None
    zero = False
    if pt is not None:
        try:
            zero = pt.ev(other) == (0, 0)
        except X.Resample:
            zero = False
    op = node.val
    if flip:
        op = {'<': '>', '<=': '>=', '>': '<', '>=': '<='}.get(op, op)
    if zero:
        return {'>': 0, '>=': 0, '<': 1, '<=': 1}.get(op)
    return {'>': 1, '>=': 1, '<': 0, '<=': 0}.get(op)


def need_func(mod, name):
    f = mod.defs.get(name)
    if not isinstance(f, ast.FunctionDef):
        raise AnalysisError(f'{mod.rel()}: anchor function {name} vanished')
    return f


def need_class(mod, name):
    c = mod.defs.get(name)
    if not isinstance(c, ast.ClassDef):
        raise AnalysisError(f'{mod.rel()}: anchor class {name} vanished')
    return c


def methods(cls):
    return {s.name: s for s in cls.body if isinstance(s, ast.FunctionDef)}


def make_eq(chk, d):
    def eq(rule, inst, got, ref, where, key=None, dec=None):
        dd = dec or d
        ok = dd.equal(got, ref)
        chk.ob(rule, inst, ok, '' if ok else f'identity fails: {dd.describe(got, ref)}', where, key=key, method='GF(p^2) PIT')
        return ok
    return eq
