"""helpers shared by property modules"""
from __future__ import annotations
import ast
from ..core import expr as X
from ..core.report import AnalysisError


def eps_mask(node, pt=None):
    """float_eps is an infinitesimal: |x| > eps is true unless x is exactly 0 at the (possibly pinned) sample point"""
    a, b = node.args
    def is_eps(n): return n.op == 'atom' and n.val[0] == 'float_eps'
    if is_eps(b): other, flip = a, False
    elif is_eps(a): other, flip = b, True
    else: return None
    zero = False
    if pt is not None:
        try:
            zero = pt.ev(other) == (0, 0)
        except X.Resample:
            zero = False
    op = node.val
    if flip:
        op = {'<': '>', '<=': '>=', '>': '<', '>=': '<='}.get(op, op)
    if zero:
        return {'>': 0, '>=': 0, '<': 1, '<=': 1}.get(op)
    return {'>': 1, '>=': 1, '<': 0, '<=': 0}.get(op)


def need_func(mod, name):
    f = mod.defs.get(name)
    if not isinstance(f, ast.FunctionDef):
        raise AnalysisError(f'{mod.rel()}: anchor function {name} vanished')
    return f


def need_class(mod, name):
    c = mod.defs.get(name)
    if not isinstance(c, ast.ClassDef):
        raise AnalysisError(f'{mod.rel()}: anchor class {name} vanished')
    return c


def methods(cls):
    return {s.name: s for s in cls.body if isinstance(s, ast.FunctionDef)}


def make_eq(chk, d):
    def eq(rule, inst, got, ref, where, key=None, dec=None):
        dd = dec or d
        ok = dd.equal(got, ref)
        chk.ob(rule, inst, ok, '' if ok else f'identity fails: {dd.describe(got, ref)}', where, key=key, method='GF(p^2) PIT')
        return ok
    return eq


# ---------------------------------------------------------------------------------------------- in-place updates of arguments
_FIXTURE = '''
def kernel(x, y, order_l=2):
    z = x
    z /= y
    return 3. / (2. * (order_l - 1)) * z / (1. + z)
def fine(x, y):
    z = x * 1.
    z /= y
    return z
'''


def _inplace_offenders(fd):
    """augmented assignments whose target is a parameter of fd or a plain alias of one (v = param; v = np.asarray(param)); with numpy arrays
    `a /= b` divides the caller's array in place, so the function's result then depends on how often / in which order it was called"""
    params = {a.arg for a in fd.args.args + fd.args.kwonlyargs} - {'self', 'cls'}
    alias = set(params)
    out = []
    body_nodes = []
    for st in fd.body:
        body_nodes.extend(ast.walk(st))
    changed = True
    while changed:
        changed = False
        for n in body_nodes:
            if isinstance(n, ast.Assign) and len(n.targets) == 1 and isinstance(n.targets[0], ast.Name):
                v = n.value
                src = None
                if isinstance(v, ast.Name): src = v.id
                elif isinstance(v, ast.Call) and ast.unparse(v.func) in ('np.asarray', 'numpy.asarray', 'np.asanyarray') and v.args and isinstance(v.args[0], ast.Name): src = v.args[0].id
                if src in alias and n.targets[0].id not in alias:
                    # only if every definition of the target is such an alias (a name that is also bound to a fresh value elsewhere is not tracked)
                    defs = [a for a in body_nodes if isinstance(a, ast.Assign) and any(isinstance(t, ast.Name) and t.id == n.targets[0].id for t in a.targets)]
                    if all(a is n or (isinstance(a.value, ast.Name) and a.value.id in alias) for a in defs):
                        alias.add(n.targets[0].id); changed = True
    fresh_rebound = {t.id for n in body_nodes if isinstance(n, ast.Assign) for t in n.targets if isinstance(t, ast.Name)
                     and not (isinstance(n.value, ast.Name) and n.value.id in alias)
                     and not (isinstance(n.value, ast.Call) and ast.unparse(n.value.func) in ('np.asarray', 'numpy.asarray', 'np.asanyarray'))}
    for n in body_nodes:
        if isinstance(n, ast.AugAssign) and isinstance(n.target, ast.Name) and n.target.id in alias:
            if n.target.id in params and n.target.id in fresh_rebound and any(isinstance(a, ast.Assign) and a.lineno < n.lineno and any(isinstance(t, ast.Name) and t.id == n.target.id for t in a.targets)
                                                                              for a in body_nodes):
                continue        # the parameter name was rebound to a fresh value before the update
            out.append((n.lineno, ast.unparse(n)[:60]))
    # element / slice / mask stores into an argument array, and numpy calls writing into it through out=
    def rebound_before(name, lineno):
        return name in fresh_rebound and any(isinstance(a, ast.Assign) and a.lineno < lineno and any(isinstance(t, ast.Name) and t.id == name for t in a.targets) for a in body_nodes)
    for n in body_nodes:
        tgts = n.targets if isinstance(n, ast.Assign) else ([n.target] if isinstance(n, ast.AugAssign) else [])
        for t in tgts:
            if isinstance(t, ast.Subscript) and isinstance(t.value, ast.Name) and t.value.id in alias and not rebound_before(t.value.id, n.lineno):
                out.append((n.lineno, ast.unparse(n)[:60]))
        if isinstance(n, ast.Call):
            for kw in n.keywords:
                if kw.arg == 'out' and isinstance(kw.value, ast.Name) and kw.value.id in alias and not rebound_before(kw.value.id, n.lineno):
                    out.append((n.lineno, ast.unparse(n)[:60]))
    return out


def inplace_lint(chk, repo, rule, paths, floor_funcs=1):
    """repository rule (zero instances on the reference tree, positive fixture evaluated on every run): a numeric kernel never updates one of its arguments in place"""
    fx = ast.parse(_FIXTURE)
    fk = [n for n in fx.body if isinstance(n, ast.FunctionDef)]
    if not _inplace_offenders(fk[0]) or _inplace_offenders(fk[1]):
        raise AnalysisError('in-place lint: the positive / negative fixtures are not classified as expected')
    nfunc = 0
    for path in paths:
        mod = repo.by_path(path)
        offenders = []
        for fd in ast.walk(mod.tree):
            if isinstance(fd, ast.FunctionDef):
                nfunc += 1
                for ln, txt in _inplace_offenders(fd):
                    offenders.append(f'{fd.name} line {ln}: `{txt}` updates an argument (or a plain alias of one) in place; with array inputs the caller\'s array is modified and a second use sees the modified values')
        chk.ob(rule, f'{path}: no kernel updates one of its arguments in place (array calls must equal scalar calls, arguments stay intact)', not offenders, '; '.join(offenders[:3]), mod.rel(),
               key=f'{rule}|{path}', method='alias-aware augmented-assignment lint (fixture-checked)')
    if nfunc < floor_funcs:
        raise AnalysisError(f'in-place lint for {rule}: only {nfunc} functions scanned')


def local_atoms_hook(mod, func, kinds=None):
    """`global` hook for fragment interpretation: a name that is a local variable or parameter of `func` (and not a module-level definition) but that the
    fragment's frame does not define evaluates to a free atom named after it.  A fragment that starts to read another local of its function is then still
    analysed (the atom shows up in the residual) instead of stopping the analysis."""
    names = {a.arg for a in func.args.args + func.args.kwonlyargs}
    for n in ast.walk(func):
        if isinstance(n, ast.Name) and isinstance(n.ctx, ast.Store):
            names.add(n.id)
    facts = getattr(mod, 'facts', None)
    if facts is not None:
        end = getattr(func, 'end_lineno', 10 ** 9)
        for (nm, ln), typ in facts.vars.items():
            if func.lineno <= ln <= end: names.add(nm)

    def hook(itp, m, nm):
        if m is mod and nm in names and nm not in mod.defs:
            return X.atom(f'local:{nm}', (kinds or {}).get(nm, 'pos'))
        return None
    return hook
