"""C02 — radial solutions satisfy the surface and internal boundary conditions (formula level)."""
from __future__ import annotations
import ast
from ..core import expr as X
from ..core.interp import Interp, Arr, FuncRef, Frame, Opaque, RaiseSignal, Ref
from ..core.report import AnalysisError
from ..frontend.pyfront import Repo
from ..oracles import ts72
from . import solver_model as SM
from .common import need_func, make_eq

LEVEL = 'other'
TECHNIQUE = 'abstract interpretation of the surface-condition builder (LAPACK call captured), of the boundary-condition table, and of both interface functions for all 16 (lower, upper) layer-kind combinations with free symbolic layer values; continuity of the combined solutions decided as polynomial identities; the boundary table taken from a prefix interpretation of cf_radial_solver; whole-function symbolic execution of cf_radial_solver on 2- and 3-layer stacks (integration, starting vectors, zgesv and heap abstracted by contract): assembled surface values, interface continuity and the recorded arguments of the interface calls; the 16 interface functions of the interpreted sibling solver compared branch by branch'
LEVEL_TEXT = ('The solution returned is sum_i C_i y_i per layer. Decided for arbitrary layer solutions: (a) the linear system handed to zgesv is exactly "constrained components of the combination = requested values" '
              'for each layer kind and requested type; (b) the constants propagated downward and the starting values propagated upward make the combined solutions agree at every interface in every component '
              'defined on both sides, with zero shear on the solid side and the potential carried through static liquids, for all 16 pairwise cases (layer stacks are chains of these). Residuals of the LAPACK solve are not decided.')
LEVEL_NOTE = ('Trusted: Cython-subset front-end, interpreter, complex algebra; LAPACK zgesv solves A x = b in place (column-major). Interface relations for static liquids follow Saito (1974) eqs. 20-21 as transcribed in this module.')
EXPLANATION = ('R02.1 surface system per layer kind; R02.2 boundary-condition vectors per requested type; R02.3 upward map: block fully written, nothing outside; '
               'R02.4 continuity identities downward x upward; R02.5 the gravities/densities handed to both interface functions are those of that interface and agree in both directions (recorded arguments of the executed driver); R02.6 sibling solver: 16 interface functions, surface systems, boundary vectors; R02.7 on the executed driver the assembled surface values equal the requested condition for every type; R02.8 on the executed driver the assembled solutions are continuous across every interface of every layer sequence explored.')

KINDS = [('solid', False), ('solid', True), ('liquid', False), ('liquid', True)]
SLOT = {('solid', False): {'y1': 0, 'y2': 1, 'y3': 2, 'y4': 3, 'y5': 4, 'y6': 5}, ('solid', True): {'y1': 0, 'y2': 1, 'y3': 2, 'y4': 3, 'y5': 4, 'y6': 5},
        ('liquid', False): {'y1': 0, 'y2': 1, 'y5': 2, 'y6': 3}, ('liquid', True): {'y5': 0, 'y7': 1}}
MAXY = 6


TECHNIQUE += '; recorded arguments of cf_apply_surface_bc (surface gravity and G of the unit system of the solve); declared C integer widths of loop indices against their bounds'

EXPLANATION += ' R02.9 the surface routine receives the gravity and G of the unit system the layers were integrated in; R02.10 no loop index narrower than its bound (interface and surface rows of finer grids).'
EXPLANATION += ' R02.10 also: every typed integer used as an offset inside a subscript is at least as wide as the integers it is computed from; no negation of an unsigned int / long / size_t value. R02.11 the readers of the Love-number buffer return the numbers stored for the requested type (C03\'s reader rule by alias). R02.6 follows every outcome of a data-dependent choice inside a legacy interface function; a starting block that differs from the compiled sibling\'s must be continuous (y1, y2, y5, y6) with the constants the legacy downward pass collapse_solutions assigns.'

def run(chk):
    repo = Repo(chk.repo)
    d = X.Decider(seed=chk.seed, k=3 if chk.tier == 'quick' else 8)
    eq = make_eq(chk, d)
    surface(chk, repo, d, eq)
    bc_table(chk, repo, d, eq)
    interfaces(chk, repo, d, eq)
    from . import legacy_solver
    legacy_solver.surface(chk, repo, d, 'R02.6')
    legacy_solver.driver_bc(chk, repo, d, 'R02.6')
    chk.floor('R02.6', 19)
    # ---- R02.7 / R02.8 on the ASSEMBLED result of the whole driver (symbolic execution of cf_radial_solver with the integration abstracted)
    from . import solver_whole
    solver_whole.guarded(chk, 'C02', lambda: solver_whole.assembled(chk, repo, 'R02.7', 'R02.8', None))
    if not any(not o.ok for o in chk.obls):
        chk.floor('R02.7', 20); chk.floor('R02.8', 25)
    # ---- R02.9: the surface condition of a static liquid top (y7 = y6 + (4 pi G / g) y2) and the loading values involve the surface gravity and G: what the driver hands to
    #      cf_apply_surface_bc must be those of the unit system of the solve (a dimensional g next to a non-dimensional G changes the condition imposed, not the Love numbers' formulas)
    solver_whole.guarded(chk, 'C02', lambda: solver_whole.surface_arguments(chk, repo, 'R02.9'))
    # ---- R02.10: a loop index narrower than its bound wraps on finer grids: interface / surface rows are then assembled from interior slices
    from .common import index_width_lint
    index_width_lint(chk, repo, 'R02.10', ['TidalPy/RadialSolver/**/*.pyx', 'TidalPy/utilities/dimensions/*.pyx'])
    from .common import unsigned_negation_lint
    unsigned_negation_lint(chk, repo, 'R02.10', ['TidalPy/RadialSolver/**/*.pyx', 'TidalPy/utilities/dimensions/*.pyx'])
    # ---- R02.11: the solution is observed through `.result` and `solution['tidal']`: the readers hand back, for every requested type, the rows of that type (C03's reader rule)
    from . import c03
    from .common import RuleAlias
    al11 = RuleAlias(chk, 'R02.11', lambda rule, inst: rule == 'R03.3' and inst.startswith('reader'))
    c03.layout(al11, repo, d, make_eq(al11, d))
    chk.floor('R02.11', 1)
    if not any(not o.ok for o in chk.obls):
        chk.floor('R02.9', 6)
    chk.floor('R02.1', 6); chk.floor('R02.2', 17); chk.floor('R02.3', 16); chk.floor('R02.4', 40)
    chk.assume('gravity, densities, G > 0; layer solutions arbitrary complex numbers (generic: the denominators y4 of the third solid solution and lambda_2 are non-zero)')


# ------------------------------------------------------------------------------------------------ surface
def surface(chk, repo, d, eq):
    mb = repo.by_path('TidalPy/RadialSolver/boundaries/boundaries.pyx')
    f = need_func(mb, 'cf_apply_surface_bc')
    pi = X.atom('pi', 'pos'); G = X.atom('G', 'pos'); g = X.atom('g_surf', 'pos')
    for (kind, static) in (('solid', False), ('liquid', False), ('liquid', True)):
        nsol = ts72.NUM_SOLS[(kind, static)]
        slots = SLOT[(kind, static)]
        for ytype in (0, 2):
            captured = {}

            def call_hook(itp, fn_, args, kwargs, e, fr):
                nm_ = str(getattr(fn_, 'name', ''))
                if nm_.endswith('zgesv'):
                    captured['args'] = args
                    return None
                if nm_.endswith('zgetrf'):
                    captured['factorised'] = args[2]          # zgetrf(M, N, A, LDA, IPIV, INFO): the first half of what zgesv does
                    captured.setdefault('other', []).append('zgetrf')
                    return None
                if nm_.endswith('zgetrs') and len(args) >= 9:
                    # zgetrs(TRANS, N, NRHS, A, LDA, IPIV, B, LDB, INFO) on the matrix zgetrf factorised, not transposed: together they are zgesv(N, NRHS, A, LDA, IPIV, B, LDB, INFO)
                    captured.setdefault('other', []).append('zgetrs')
                    fa_ = captured.get('factorised')
                    tr_ = args[0]
                    try: tv_ = tr_.get(0) if isinstance(tr_, Arr) else (tr_.frame.vars[tr_.name] if isinstance(tr_, Ref) else tr_)
                    except Exception: tv_ = None
                    if isinstance(fa_, Arr) and isinstance(args[3], Arr) and fa_.base is args[3].base and tv_ in (b'N', 'N', 78):
                        captured['args'] = (args[1], args[2], args[3], args[4], args[5], args[6], args[7], args[8])
                    return None
                if 'cython_lapack' in nm_:
                    captured.setdefault('other', []).append(nm_.split('.')[-1])
                    return None
                return NotImplemented
            it = Interp(repo, hooks={'call': call_hook})
            Ytop = Arr('ytop', default=lambda k: X.atom(f'Y[{k // MAXY}][{k % MAXY}]', 'complex'))
            bc = Arr('bc', default=lambda k: X.atom(f'bc[{k}]'))
            cvec = Arr('const')
            info = Ref(Frame(mb, 'caller'), 'info'); info.frame.vars['info'] = -999
            lt = 0 if kind == 'solid' else 1
            it.call(mb, f, [cvec, info, bc, Ytop, g, G, nsol, MAXY, ytype, lt, static, False])
            where = mb.where(f)
            inst = f'surface layer {kind}{" static" if static else " dynamic" if kind == "liquid" else ""}, ytype {ytype}'
            if 'args' not in captured:
                chk.ob('R02.1', inst + ': the surface system is handed to zgesv', False, f'no zgesv call (nor a zgetrf / zgetrs pair on one matrix) seen (other LAPACK routines called: {captured.get("other", [])}): the system that is solved cannot be read off', where,
                       key=f'R02.1|{kind}|{static}|{ytype}'); continue
            a = captured['args']
            n_ref, nrhs_ref, A, lda, ipiv, b, ldb, inf = a
            def deref(v): return v.frame.vars[v.name] if isinstance(v, Ref) else v
            n = deref(n_ref)
            okdim = (n == nsol and deref(nrhs_ref) == 1 and deref(lda) == nsol and deref(ldb) == nsol and b.base is cvec.base)
            # constrained components and right-hand sides
            if kind == 'solid':
                comps = ['y2', 'y4', 'y6']; rhs = [bc.get(3 * ytype + 0), bc.get(3 * ytype + 1), bc.get(3 * ytype + 2)]
            elif not static:
                comps = ['y2', 'y6']; rhs = [bc.get(3 * ytype + 0), bc.get(3 * ytype + 2)]
            else:
                comps = ['y7']; rhs = [bc.get(3 * ytype + 2) + bc.get(3 * ytype + 0) * (4 * pi * G / g)]
            bad = []
            for s in range(nsol):
                for i, c in enumerate(comps):
                    try:
                        got = A.get(i + nsol * s)
                    except AnalysisError:
                        bad.append(f'A[{i},{s}] never written'); continue
                    ref = Ytop.get(s * MAXY + slots[c])
                    if not d.equal(got, ref): bad.append(f'A[row {c}, solution {s}] = {X.show(got)[:30]}')
            for i, c in enumerate(comps):
                try:
                    if not d.equal(b.get(i), rhs[i]): bad.append(f'rhs[{c}] = {X.show(b.get(i))[:40]}')
                except AnalysisError:
                    bad.append(f'rhs[{c}] never written')
            chk.ob('R02.1', inst + f': zgesv solves sum_s C_s {comps}(solution s) = requested values (column-major {nsol}x{nsol})', okdim and not bad,
                   ('dimension arguments wrong; ' if not okdim else '') + '; '.join(bad[:4]), where, key=f'R02.1|{kind}|{static}|{ytype}', method='interpretation with the LAPACK call captured + GF(p^2) PIT')
    chk.note_analysed('functions', 'boundaries.cf_apply_surface_bc')


# ------------------------------------------------------------------------------------------------ BC table
def find_if(func, pred):
    for n in ast.walk(func):
        if isinstance(n, ast.If) and pred(n):
            return n
    return None


def bc_table(chk, repo, d, eq):
    """R02.2 by prefix interpretation of cf_radial_solver (solver_model.solver_bc_table): no dependence on the names of the solver's locals or on whether the table is
    filled inline or by a helper"""
    ms = repo.by_path('TidalPy/RadialSolver/solver.pyx')
    f = need_func(ms, 'cf_radial_solver')
    where = ms.where(f)
    for nd in (False, True):
        tag = 'non-dimensional' if nd else 'dimensional'

        def refs(sym):
            l = sym['l']; R = X.ONE if nd else sym['R']; rho = X.ONE if nd else sym['rho_bulk']
            return {'tidal': (X.ZERO, X.ZERO, (2 * l + 1) / R), 'loading': (-(2 * l + 1) * rho / 3, X.ZERO, (2 * l + 1) / R), 'free': (X.ZERO, X.ZERO, X.ZERO)}
        vals, fr, sym = SM.solver_bc_table(repo, None, nd)
        ref = refs(sym)
        ok = all(d.equal(vals[k], ref['tidal'][k]) for k in range(3))
        chk.ob('R02.2', f'default (solve_for=None, {tag}) == tidal condition (0, 0, (2l+1)/R)', ok, f'{[X.show(v)[:30] for v in vals]}', where, key=f'R02.2|default|{nd}', method='prefix interpretation of cf_radial_solver')
        names = ['tidal', 'loading', 'free']
        combos = [(n,) for n in names] + [('Tidal', 'LOADING'), ('free', 'tidal', 'loading'), ('loading', 'loading', 'free', 'tidal', 'tidal')]
        for combo in combos:
            vals, fr, sym = SM.solver_bc_table(repo, combo, nd)
            ref = refs(sym)
            bad = []
            for i, nm in enumerate(combo):
                for k in range(3):
                    if not d.equal(vals[3 * i + k], ref[nm.lower()][k]):
                        bad.append(f'{nm}[{k}] = {X.show(vals[3 * i + k])[:40]}')
            chk.ob('R02.2', f'solve_for={combo} ({tag}): condition of type i stored at 3i..3i+2, independently per type', not bad, '; '.join(bad[:3]), where, key=f'R02.2|{combo}|{nd}',
                   method='prefix interpretation of cf_radial_solver + GF(p^2) PIT')
    for bad_combo in (('bogus',), ('tidal', 'nope'), ('tidal',) * 6):
        try:
            SM.solver_bc_table(repo, bad_combo, False); raised = False
        except RaiseSignal:
            raised = True
        chk.ob('R02.2', f'solve_for={bad_combo if len(bad_combo) < 6 else "six types"}: raises (unknown name / more than the 5 x 3 values the table holds)', raised, 'no exception', where,
               method='prefix interpretation of cf_radial_solver')


def legacy_eliminated_solution(repo):
    """which solid solution the legacy downward pass (collapse_solutions) eliminates through y4 = 0 below a liquid layer: the index k of its `y_surface_solutions[k][3]` denominators"""
    mc = repo.by_path('TidalPy/radial_solver/numerical/collapse/generalized_collapse.py')
    f = need_func(mc, 'collapse_solutions')
    ks = set()
    for n in ast.walk(f):
        if isinstance(n, ast.BinOp) and isinstance(n.op, ast.Div):
            m_ = n.right
            if isinstance(m_, ast.Subscript) and isinstance(m_.value, ast.Subscript) and ast.unparse(m_.value.value) == 'y_surface_solutions' \
                    and isinstance(m_.slice, ast.Constant) and m_.slice.value == 3 and isinstance(m_.value.slice, ast.Constant):
                ks.add(m_.value.slice.value)
    if len(ks) != 1:
        raise AnalysisError(f'{mc.rel()}: collapse_solutions: the solution eliminated through y4 = 0 is not a single constant index ({sorted(ks)})')
    return ks.pop()


# ------------------------------------------------------------------------------------------------ interfaces
def interfaces(chk, repo, d, eq):
    mi = repo.by_path('TidalPy/RadialSolver/interfaces/interfaces.pyx'); mr = repo.by_path('TidalPy/RadialSolver/interfaces/reversed.pyx')
    ms = repo.by_path('TidalPy/RadialSolver/solver.pyx')
    fup = need_func(mi, 'cf_solve_upper_y_at_interface'); fdn = need_func(mr, 'cf_top_to_bottom_interface_bc')
    fs = need_func(ms, 'cf_radial_solver')
    pi = X.atom('pi', 'pos'); G = X.atom('G', 'pos')
    g_low_top = X.atom('g_lower_top', 'pos'); g_up_bot = X.atom('g_upper_bottom', 'pos')
    rho_low_top = X.atom('rho_lower_top', 'pos'); rho_up_bot = X.atom('rho_upper_bottom', 'pos')
    g_int = X.const(1) / 2 * (g_low_top + g_up_bot)
    it = Interp(repo)
    try:
        mleg = repo.by_path('TidalPy/radial_solver/numerical/interfaces/__init__.py')
        legacy = (mleg, need_func(mleg, 'find_interface_func'))
    except AnalysisError:
        legacy = None
    for (lk, ls) in KINDS:
        for (uk, us) in KINDS:
            lab = f'lower {lk}/{"static" if ls else "dynamic"} -> upper {uk}/{"static" if us else "dynamic"}'
            nl = ts72.NUM_SOLS[(lk, ls)]; nu = ts72.NUM_SOLS[(uk, us)]
            sl = SLOT[(lk, ls)]; su = SLOT[(uk, us)]
            # what the driver hands to the upward function at such an interface (decided on the driver itself by R02.5): mean gravity, density of the static liquid side
            g_up_sel = g_int
            rho_up_sel = rho_up_bot if (uk == 'liquid' and us) else (rho_low_top if (lk == 'liquid' and ls) else rho_up_bot)
            # lower layer top values: free atoms
            L = Arr('lower', default=lambda k: X.atom(f'L[{k // MAXY}][{k % MAXY}]', 'complex'))
            U = Arr('upper')
            dens_arg = rho_up_sel if isinstance(rho_up_sel, X.Node) else X.atom('UNUSED_DENSITY', 'pos')
            it.call(mi, fup, [L, U, nl, nu, MAXY, 0 if lk == 'solid' else 1, ls, False, 0 if uk == 'solid' else 1, us, False, g_up_sel, dens_arg, G])
            # R02.3: block written
            want = sorted(s * MAXY + i for s in range(nu) for i in range(len(su)))
            finite = sorted(k for k, v in U.store.items() if isinstance(v, X.Node))
            extra = [k for k in finite if k not in want]
            missing = [k for k in want if k not in finite]
            ok3 = not missing and all(all(a.val[0].startswith('L[') or a.val[0] in ('g_lower_top', 'g_upper_bottom', 'rho_lower_top', 'rho_upper_bottom', 'pi', 'G') for a in X.atoms_of(U.store[k])) for k in want if k in U.store and isinstance(U.store[k], X.Node))
            # entries outside the block may be copies of the lower block (solid-solid copies all 6x3) but never beyond num_sols_upper * stride
            beyond = [k for k in finite if k >= MAXY * 3]
            chk.ob('R02.3', f'{lab}: every slot of the {nu} x {len(su)} starting block of the upper layer is defined from the lower layer\'s values', ok3 and not beyond,
                   (f'undefined slots {missing}; ' if missing else '') + (f'writes beyond the 18-slot buffer {beyond}' if beyond else ''), mi.where(fup), key=f'R02.3|{lab}', method='store map of the abstract interpreter')
            if missing:
                continue
            # R02.6 sibling agreement: the interpreted solver package's interface function for the same pair of assumptions maps the same lower values to the
            # same starting block (so the continuity proof below covers it as well)
            if legacy is not None:
                try:
                    lf, lextra = it.call(legacy[0], legacy[1], [lk == 'solid', ls, uk == 'solid', us], {'static_liquid_density': dens_arg, 'interface_gravity': g_up_sel, 'G_to_use': G})
                    L2 = Arr('lower_ys', default=lambda k: (X.atom(f'L[{k[0]}][{k[1]}]', 'complex') if isinstance(k, tuple)
                                                           else Arr(f'lower_ys[{k}]', default=lambda j, k=k: X.atom(f'L[{k}][{j}]', 'complex'))))
                    from ..core.interp import PathExplorer

                    def one(fork):
                        it.hooks['fork'] = fork
                        try: return it.call(lf.mod, lf.node, [L2] + list(lextra))
                        finally: it.hooks.pop('fork', None)
                    bad6 = []
                    for tr6, lout in PathExplorer(max_paths=16).run(one):        # (a data-dependent choice inside the legacy function: every outcome is judged)
                        dev = []
                        for j in range(nu):
                            for i in range(len(su)):
                                gv = lout.store.get((j, i)) if isinstance(lout, Arr) else None
                                if gv is None or not d.equal(gv, U.store[j * MAXY + i]):
                                    dev.append(f'[{j}][{i}]')
                        if dev and tr6 and (lk, ls, uk, us) == ('solid', False, 'liquid', False) and isinstance(lout, Arr):
                            # the block differs from the sibling's on this outcome: what matters is that it matches what the package's own downward pass assumes
                            # (generalized_collapse.collapse_solutions: the solid constants below a dynamic liquid are c0, c1 of the liquid and the one fixed by y4 = 0)
                            kel = legacy_eliminated_solution(repo)
                            keep = [s_ for s_ in range(3) if s_ != kel]
                            cu = [X.atom('Cup0', 'complex'), X.atom('Cup1', 'complex')]
                            y4 = [X.atom(f'L[{s_}][3]', 'complex') for s_ in range(3)]
                            cl = {0: cu[0], 1: cu[1]}
                            cl[2] = -(y4[0] / y4[kel]) * cl[0] - (y4[1] / y4[kel]) * cl[1] if kel == 2 else None
                            if cl[2] is None:
                                raise AnalysisError('the legacy downward pass no longer eliminates the third solid solution: the legacy pair is not modelled')
                            slot_l = {'y1': 0, 'y2': 1, 'y5': 4, 'y6': 5}
                            dev = []
                            for nm_, i in su.items():
                                if nm_ not in slot_l or (0, i) not in lout.store: continue
                                up_ = cu[0] * lout.store[(0, i)] + cu[1] * lout.store[(1, i)]
                                lo_ = sum_((cl[s_] * X.atom(f'L[{s_}][{slot_l[nm_]}]', 'complex') for s_ in range(3)))
                                if not d.equal(up_, lo_):
                                    dev.append(f'{nm_} is not continuous with the constants the legacy downward pass assigns{PathExplorer.label(tr6)}')
                        bad6 += dev
                    chk.ob('R02.6', f'{lab}: legacy interface function {lf.mod.name.split(".")[-1]}.{lf.node.name} == cf_solve_upper_y_at_interface on the same lower values', not bad6,
                           f'elements differ: {bad6[:6]}', lf.mod.where(lf.node), key=f'R02.6|{lab}', method='interpretation of both implementations + GF(p^2) PIT')
                except AnalysisError as ex:
                    raise AnalysisError(f'legacy interface {lab}: {ex}')
            # downward: constants
            Cup = [X.atom(f'Cup{j}', 'complex') for j in range(nu)]
            cabove = Arr('cabove', default=lambda k: Cup[k] if k < nu else Opaque('nan'))
            clow = Arr('clow')
            it.call(mr, fdn, [clow, cabove, L, g_low_top, g_up_bot, rho_low_top, rho_up_bot, 0 if lk == 'solid' else 1, 0 if uk == 'solid' else 1, ls, us, False, False, nl, MAXY])
            if sorted(k for k, v in clow.store.items() if isinstance(v, X.Node)) != list(range(nl)):
                chk.ob('R02.4', f'{lab}: downward pass defines all {nl} constants of the lower layer', False, f'defined: {sorted(clow.store)}', mr.where(fdn), key=f'R02.4|{lab}|constants'); continue
            low = {nm: sum_((clow.store[s] * L.get(s * MAXY + i) for s in range(nl))) for nm, i in sl.items()}
            upp = {nm: sum_((Cup[j] * U.store[j * MAXY + i] for j in range(nu))) for nm, i in su.items()}
            rho_liq = None
            # which liquid density belongs to this interface (the liquid side; for liquid-liquid the static one)
            conds = []
            shared = [nm for nm in ('y1', 'y2', 'y5', 'y6') if nm in low and nm in upp]
            if lk == 'solid' and uk == 'solid':
                shared = ['y1', 'y2', 'y3', 'y4', 'y5', 'y6']
            for nm in shared:
                conds.append((f'{nm} continuous', low[nm], upp[nm]))
            if lk == 'solid' and uk == 'liquid':
                conds.append(('zero shear stress (y4) on the solid side', low['y4'], X.ZERO))
            if lk == 'liquid' and uk == 'solid':
                conds.append(('zero shear stress (y4) on the solid side', upp['y4'], X.ZERO))
            # static liquid relations (Saito 1974 eqs. 20-21): y5 continuous; y7 = y6 + (4 pi G / g) y2 ; y2 = rho_liq (g y1 - y5) on the non-static side
            fpg = 4 * pi * G
            if uk == 'liquid' and us and not (lk == 'liquid' and ls):
                conds.append(('potential y5 carried into the static liquid', low['y5'], upp['y5']))
                conds.append(('y7 = y6 + (4 pi G / g) y2 at the base of the static liquid', upp['y7'], low['y6'] + fpg / g_int * low['y2']))
                conds.append(('hydrostatic condition y2 = rho (g y1 - y5) below the static liquid', low['y2'], rho_up_bot * (g_int * low['y1'] - low['y5'])))
            if lk == 'liquid' and ls and not (uk == 'liquid' and us):
                conds.append(('potential y5 carried out of the static liquid', low['y5'], upp['y5']))
                conds.append(('y7 = y6 + (4 pi G / g) y2 at the top of the static liquid', low['y7'], upp['y6'] + fpg / g_int * upp['y2']))
                conds.append(('hydrostatic condition y2 = rho (g y1 - y5) above the static liquid', upp['y2'], rho_low_top * (g_int * upp['y1'] - upp['y5'])))
            if lk == 'liquid' and ls and uk == 'liquid' and us:
                conds.append(('y5 continuous', low['y5'], upp['y5'])); conds.append(('y7 continuous', low['y7'], upp['y7']))
            for nm, a, b in conds:
                ok = d.equal(a, b)
                chk.ob('R02.4', f'{lab}: {nm}', ok, '' if ok else d.describe(a, b), mr.where(fdn), key=f'R02.4|{lab}|{nm}', method='interpretation (downward x upward) + GF(p^2) PIT')
            chk.note_analysed('interfaces', f'{lab}: {len(conds)} conditions')
    # R02.5: the arguments the driver really passes, recorded during whole-function symbolic execution
    from . import solver_whole
    solver_whole.guarded(chk, 'C02', lambda: solver_whole.interface_arguments(chk, repo, 'R02.5'))


def sum_(it):
    acc = X.ZERO
    for v in it:
        acc = acc + v
    return acc
