"""C18 — an interrupted parameter study restarts without redoing or losing cases (protocol-level necessary conditions)."""
from __future__ import annotations
import ast
import networkx as nx
from ..core.report import AnalysisError
from ..frontend.pyfront import Repo
from ..frontend.cfg import CFG, ENTRY, EXIT, RAISE
from .common import need_func

LEVEL = 'other'
TECHNIQUE = 'statement CFG of the study driver and its worker: dominance (result file before success marker), flag-sensitive reachability (failed run never writes the marker), guard dominance on the skip list, free-variable analysis of the worker record, writer/reader agreement of the journal line format'
LEVEL_TEXT = ('Kill points cannot be enumerated statically; decided instead are the ordering and bookkeeping rules that make every kill point safe: the success marker is the last durable '
              'write of a case and implies its result file, a failed case writes no marker, only marked cases are skipped, a worker result is built from the worker\'s own arguments, '
              'journal writer and reader agree (including tuple-valued must-include), and the returned list is uniform across fresh and restarted cases.')
LEVEL_NOTE = 'Trusted: ast front-end, CFG builder. Not decided: atomicity of a single np.savez / file write under kill -9 (OS-level), behaviour of pathos/multiprocessing pools.'
EXPLANATION = 'R18.1 marker last; R18.2 failed => no marker, skip => marker; R18.3 own identity; R18.4 journal agreement; R18.5 uniform results; R18.6 skip set consistency; R18.7 results read only under the marker; R18.8 case-directory names: worker template, restart scan and reload template agree.'


def const_strings(node):
    return [n.value for n in ast.walk(node) if isinstance(n, ast.Constant) and isinstance(n.value, str)]


def path_strings(expr, scopes, depth=4):
    """String constants a path expression is built from, following local / enclosing-scope names through their assignments
    (`results_path = os.path.join(d, 'mp_results.npz')` ... `np.savez(results_path, ...)`)."""
    out = list(const_strings(expr))
    if depth <= 0:
        return out
    for n in ast.walk(expr):
        if isinstance(n, ast.Name):
            for sc in scopes:
                for a in ast.walk(sc):
                    if isinstance(a, ast.Assign) and any(isinstance(t, ast.Name) and t.id == n.id for t in a.targets):
                        out += path_strings(a.value, scopes, depth - 1)
                    elif isinstance(a, ast.AnnAssign) and isinstance(a.target, ast.Name) and a.target.id == n.id and a.value is not None:
                        out += path_strings(a.value, scopes, depth - 1)
    return out


def enclosing_function(root, node):
    best = root
    for fn in ast.walk(root):
        if isinstance(fn, (ast.FunctionDef, ast.Lambda)) and fn is not root and any(x is node for x in ast.walk(fn)):
            if sum(1 for _ in ast.walk(fn)) < sum(1 for _ in ast.walk(best)):
                best = fn
    return best



def true_edge(t, is_target):
    """the outcome ('true' / 'false') of test `t` on which the call selected by `is_target` inside it is known to have returned True; None if neither"""
    if isinstance(t, ast.Call) and is_target(t):
        return 'true'
    if isinstance(t, ast.UnaryOp) and isinstance(t.op, ast.Not):
        r_ = true_edge(t.operand, is_target)
        return None if r_ is None else ('false' if r_ == 'true' else 'true')
    if isinstance(t, ast.BoolOp):
        rs = [true_edge(v_, is_target) for v_ in t.values]
        if isinstance(t.op, ast.And) and 'true' in rs: return 'true'        # every conjunct holds on the true edge
        if isinstance(t.op, ast.Or) and 'false' in rs: return 'false'      # every disjunct fails on the false edge
    return None


def run(chk):
    repo = Repo(chk.repo)
    m = repo.by_path('TidalPy/utilities/multiprocessing/multiprocessing.py')
    f = need_func(m, 'multiprocessing_run')
    # ---- locate the worker: the nested function handed to pool.map / pool.starmap
    nested = {n.name: n for n in ast.walk(f) if isinstance(n, ast.FunctionDef) and n is not f}
    worker = None
    for n in ast.walk(f):
        if isinstance(n, ast.Call) and isinstance(n.func, ast.Attribute) and n.func.attr in ('map', 'starmap', 'imap', 'apply_async'):
            for a in n.args[:1]:
                if isinstance(a, ast.Name) and a.id in nested:
                    worker = nested[a.id]
                elif isinstance(a, ast.Name):
                    # lambda alias: patho_func = lambda x: func_to_use(*x)
                    for s in ast.walk(f):
                        if isinstance(s, ast.Assign) and isinstance(s.targets[0], ast.Name) and s.targets[0].id == a.id and isinstance(s.value, ast.Lambda):
                            for c in ast.walk(s.value):
                                if isinstance(c, ast.Call) and isinstance(c.func, ast.Name) and c.func.id in nested:
                                    worker = nested[c.func.id]
    if worker is None:
        raise AnalysisError('multiprocessing_run: worker function handed to the pool not found')
    chk.note_analysed('functions', f'multiprocessing_run, worker {worker.name}')

    # ---- reader side defines marker and result file names
    marker = result_file = None
    skip_append = None
    # the skip list is found by its role, not by its name: a local list that is appended to and later consulted with `in` / `not in`
    appended = {}
    for n in ast.walk(f):
        if isinstance(n, ast.Call) and isinstance(n.func, ast.Attribute) and n.func.attr == 'append' and isinstance(n.func.value, ast.Name):
            appended.setdefault(n.func.value.id, []).append(n)
    tested = set()
    for n in ast.walk(f):
        if isinstance(n, ast.Compare) and any(isinstance(o, (ast.In, ast.NotIn)) for o in n.ops):
            tested |= {c.id for c in n.comparators if isinstance(c, ast.Name)}
    cands = [nm for nm in appended if nm in tested]
    if len(cands) != 1:
        raise AnalysisError(f'multiprocessing_run: skip list not identified (lists that are appended to and membership-tested: {cands})')
    skip_name = cands[0]
    skip_append = min(appended[skip_name], key=lambda n: n.lineno)
    # the guard of the first skip append: isfile(<path built from a constant>)
    outer_nodes = [n for n in ast.walk(f)]
    assigns = {}
    for n in outer_nodes:
        if isinstance(n, ast.Assign) and isinstance(n.targets[0], ast.Name):
            assigns.setdefault(n.targets[0].id, []).append(n)
    cfg = CFG(f)
    G = cfg.G
    # find the If that guards the skip append
    sa_stmt = stmt_of(f, skip_append)
    sa_node = cfg.node_of.get(id(sa_stmt))
    guard_if = None
    loops_around = [l for l in ast.walk(f) if isinstance(l, (ast.For, ast.While)) and any(x is sa_stmt for x in ast.walk(l))]
    inner_loop = min(loops_around, key=lambda l: sum(1 for _ in ast.walk(l))) if loops_around else f
    in_loop = {id(x) for x in ast.walk(inner_loop)}
    for n, dct in G.nodes(data=True):
        st = dct.get('stmt')
        if isinstance(st, ast.If) and id(st) in in_loop and 'isfile' in ast.unparse(st.test):
            if nx.has_path(G, n, sa_node) and (guard_if is None or st.lineno > guard_if[1].lineno) and st.lineno < sa_stmt.lineno:
                guard_if = (n, st)
    if guard_if is None:
        chk.ob('R18.2', 'a case is put on the skip list only when its success marker exists (guard dominance)', False,
               f'{skip_name}.append(...) is not guarded by any os.path.isfile(<marker>) test: unfinished cases would be skipped on restart', m.where(sa_stmt), method='CFG edge-removal reachability')
        return
    gname = [x.id for x in ast.walk(guard_if[1].test) if isinstance(x, ast.Name) and x.id in assigns]
    for nm in gname:
        for a in assigns[nm]:
            cs = [c for c in const_strings(a.value) if '.' in c]
            if cs: marker = cs[0]
    for n in ast.walk(f):
        if isinstance(n, ast.Call) and ast.unparse(n.func) in ('np.load', 'numpy.load') and enclosing_function(f, n) is f:
            cs = [c for c in path_strings(n, [f]) if '.' in c]
            if cs: result_file = cs[0]
    if not marker or not result_file:
        raise AnalysisError(f'could not identify marker/result file names from the restart reader (marker={marker}, result={result_file})')
    chk.note_analysed('protocol', f'marker file {marker!r}, result file {result_file!r} (taken from the restart reader)')

    # ---- R18.2b skip => marker present: the append is only reachable through the marker-present edge of the guard
    H = G.copy()

    edge_kind = true_edge(guard_if[1].test, lambda c_: 'isfile' in ast.unparse(c_.func))
    if edge_kind is None:
        raise AnalysisError(f'{m.where(guard_if[1])}: cannot tell on which outcome of `{ast.unparse(guard_if[1].test)[:80]}` the success marker is known to exist')
    for (u, v, dct) in list(H.out_edges(guard_if[0], data=True)):
        if dct['kind'] == edge_kind:
            H.remove_edge(u, v)
    ok = not nx.has_path(H, ENTRY, sa_node)
    chk.ob('R18.2', 'a case is put on the skip list only when its success marker exists (guard dominance)', ok, 'skip append reachable without the marker test succeeding', m.where(sa_stmt), method='CFG edge-removal reachability')

    # ---- worker CFG
    wcfg = CFG(worker)
    WG = wcfg.G

    def writers(name, modes=('w', 'wb', 'x', None)):
        out = []
        for n, dct in WG.nodes(data=True):
            st = dct.get('stmt')
            if st is None: continue
            hdr = header_expr(st)
            for c in ast.walk(hdr):
                if isinstance(c, ast.Call) and name in path_strings(c, [worker, f]):
                    fn_ = ast.unparse(c.func)
                    if fn_ == 'open':
                        mode = c.args[1].value if len(c.args) > 1 and isinstance(c.args[1], ast.Constant) else 'r'
                        if mode in ('w', 'wb', 'x', 'a'): out.append(n)
                    elif fn_.split('.')[-1] in ('savez', 'save', 'savez_compressed', 'savetxt', 'dump'):
                        out.append(n)
        return sorted(set(out))
    mk = writers(marker); rs = writers(result_file)
    if not mk:
        raise AnalysisError(f'worker {worker.name}: writer of the marker {marker} not found')
    if not rs:
        chk.ob('R18.1', f'every path to the write of {marker} has already written {result_file} (marker last)', False,
               f'the worker writes {marker} but never writes {result_file}, which the restart path loads for every skipped case', m.where(WG.nodes[mk[0]]['stmt']), key='R18.1|marker-after-result', method='CFG dominance')
        return
    idom = wcfg.dominators()
    for mnode in mk:
        dom = any(wcfg.dominates(r, mnode, idom) for r in rs)
        st = WG.nodes[mnode]['stmt']
        chk.ob('R18.1', f'every path to the write of {marker} has already written {result_file} (marker last)', dom,
               f'{marker} is written at line {st.lineno} on a path that has not yet written {result_file} (line {WG.nodes[rs[0]]["stmt"].lineno}): a kill between them leaves a marked case without a result',
               m.where(st), key='R18.1|marker-after-result', method='CFG dominance')
        # nothing durable after the marker except appends to the study log
        later = []
        for n in nx.descendants(WG, mnode):
            st2 = WG.nodes[n].get('stmt')
            if st2 is None: continue
            for c in ast.walk(header_expr(st2)):
                if isinstance(c, ast.Call):
                    fn_ = ast.unparse(c.func)
                    if fn_ == 'open' and len(c.args) > 1 and isinstance(c.args[1], ast.Constant) and c.args[1].value in ('w', 'wb', 'x'):
                        later.append(st2.lineno)
                    if fn_.split('.')[-1] in ('savez', 'save', 'savez_compressed', 'makedirs'):
                        later.append(st2.lineno)
        chk.ob('R18.1', f'no durable write (other than log appends) follows the write of {marker}', not later, f'durable writes after the marker at lines {sorted(set(later))}', m.where(st),
               key='R18.1|nothing-after-marker', method='CFG reachability')
    # ---- R18.2a failed => no marker (flag-sensitive reachability from the except handler)
    handlers = [n for n, dct in WG.nodes(data=True) if dct.get('role') == 'handler']
    if not handlers:
        raise AnalysisError('worker has no exception handler around the study function')
    for h in handlers:
        bad = flag_reach(WG, h, set(mk))
        chk.ob('R18.2', 'a case whose study function raised never writes the success marker', bad is None,
               f'path from the except handler to the marker write: {wcfg.describe_path(bad, m) if bad else ""}', m.where(WG.nodes[h]['stmt']), method='flag-sensitive CFG reachability')

    # ---- R18.7 the result file is only ever read for a case whose success marker is known to exist.  np.savez is not atomic: a kill inside it
    #      leaves a truncated result file and no marker, and such a case must be recomputed, never reloaded.
    n_reads = 0
    for n in ast.walk(f):
        if not isinstance(n, ast.Call):
            continue
        fn_ = ast.unparse(n.func)
        is_read = fn_.split('.')[-1] in ('load', 'loadtxt', 'genfromtxt') or \
            (fn_ == 'open' and (len(n.args) < 2 or (isinstance(n.args[1], ast.Constant) and str(n.args[1].value).startswith('r'))))
        if not is_read:
            continue
        encl = enclosing_function(f, n)
        scopes = [encl, worker, f] if encl is not f else [f]
        if result_file not in path_strings(n, scopes):
            continue
        n_reads += 1
        st = stmt_of(encl, n)
        ok = False; why = ''
        if encl is f:
            for l in ast.walk(f):
                if isinstance(l, ast.For) and any(x is n for x in ast.walk(l)) and any(isinstance(x, ast.Name) and x.id == skip_name for x in ast.walk(l.iter)):
                    ok = True
            why = 'read in the driver outside the loop over the skip list (whose members are marked cases by R18.2)'
        if not ok and isinstance(encl, ast.FunctionDef):
            ecfg = cfg if encl is f else CFG(encl)
            EG = ecfg.G.copy()
            tgt = ecfg.node_of.get(id(st))
            for gn, dct in list(EG.nodes(data=True)):
                gst = dct.get('stmt')
                if isinstance(gst, ast.If):
                    for c in ast.walk(gst.test):
                        if isinstance(c, ast.Call) and ast.unparse(c.func).split('.')[-1] in ('isfile', 'exists') and marker in path_strings(c, scopes):
                            present = true_edge(gst.test, lambda c_, c=c: c_ is c)      # outcome on which the marker is known to exist
                            for (u, v, d2) in list(EG.out_edges(gn, data=True)):
                                if present is not None and d2['kind'] == present:
                                    EG.remove_edge(u, v)
            # after removing every marker-present edge the read must be unreachable
            reach = tgt is not None and nx.has_path(EG, ENTRY, tgt)
            # (only meaningful if at least one marker test exists)
            ok = not reach
            why = f'{result_file} is read in {getattr(encl, "name", "<lambda>")} on a path that never established that {marker} exists: a case killed inside the (non-atomic) result write would be reloaded from a truncated file instead of recomputed'
        chk.ob('R18.7', f'{result_file} is read only for cases whose {marker} exists', ok, why, m.where(st), key=f'R18.7|{getattr(encl, "name", "?")}|{ast.unparse(n)[:50]}', method='CFG edge-removal reachability / skip-list loop')
    chk.floor('R18.7', 1)

    # ---- R18.3 own identity
    params = {a.arg for a in worker.args.args + worker.args.kwonlyargs} | ({worker.args.vararg.arg} if worker.args.vararg else set()) | ({worker.args.kwarg.arg} if worker.args.kwarg else set())
    local_defs = set()
    for n in ast.walk(worker):
        if isinstance(n, ast.Name) and isinstance(n.ctx, ast.Store): local_defs.add(n.id)
        if isinstance(n, ast.ExceptHandler) and n.name: local_defs.add(n.name)
    outer_assigned = {}
    for n in ast.walk(f):
        if n is worker: continue
    for n in outer_nodes:
        if isinstance(n, ast.Name) and isinstance(n.ctx, ast.Store) and not inside(worker, n):
            outer_assigned[n.id] = outer_assigned.get(n.id, 0) + 1
    nret = 0
    for r in ast.walk(worker):
        if isinstance(r, ast.Return) and r.value is not None and enclosing_function(worker, r) is worker:
            nret += 1
            free = sorted({n.id for n in ast.walk(r.value) if isinstance(n, ast.Name) and isinstance(n.ctx, ast.Load) and n.id not in params and n.id not in local_defs
                           and outer_assigned.get(n.id, 0) >= 1 and not is_global_like(n.id, m)})
            varying = [v for v in free if outer_assigned.get(v, 0) > 1 or loop_var(f, v)]
            chk.ob('R18.3', 'the worker\'s returned record is built only from its own parameters and locals', not varying,
                   f'reads enclosing-scope variable(s) {varying} that the driver reassigns (every result would carry the driver\'s last value)', m.where(r), key='R18.3|worker-record', method='free-variable analysis')
            # record type
            ok = isinstance(r.value, ast.Call) and ast.unparse(r.value.func) == 'MultiprocessingOutput'
            chk.ob('R18.5', 'worker returns a MultiprocessingOutput', ok, f'returns {ast.unparse(r.value)[:60]}', m.where(r), method='AST')
            if ok:
                kw = {k.arg: ast.unparse(k.value) for k in r.value.keywords}
                okb = kw.get('case_number') in params and kw.get('input_index') in params
                chk.ob('R18.3', 'case_number and input_index of the record are the worker\'s own run number and grid index parameters', okb, f'record fields: {kw}', m.where(r), key='R18.3|record-fields', method='AST binding')
    if nret == 0:
        raise AnalysisError('worker has no return')

    # ---- R18.4 journal agreement
    journal(chk, m, f)

    # ---- R18.5 uniform results: everything concatenated into the returned list
    ret_names = {ast.unparse(r.value) for r in ast.walk(f) if isinstance(r, ast.Return) and r.value is not None and not inside(worker, r)}
    for n in outer_nodes:
        if isinstance(n, ast.Call) and isinstance(n.func, ast.Attribute) and n.func.attr == 'append' and isinstance(n.func.value, ast.Name):
            tgt = n.func.value.id
            if flows_into(f, tgt, ret_names):
                arg = n.args[0]
                ok = isinstance(arg, ast.Call) and ast.unparse(arg.func) == 'MultiprocessingOutput'
                chk.ob('R18.5', f'items appended to {tgt} (concatenated into the returned results) are MultiprocessingOutput records', ok,
                       f'appends {ast.unparse(arg)[:70]} (a bare {type(arg).__name__.lower()})', m.where(n), key=f'R18.5|{tgt}.append', method='AST def-use')

    # ---- R18.6 skip set consistency
    uses = [n for n in outer_nodes if isinstance(n, ast.Name) and n.id == skip_name]
    stores = sorted(n.lineno for n in uses if isinstance(n.ctx, ast.Store))
    build_loop = next((n for n in outer_nodes if isinstance(n, ast.If) and isinstance(n.test, ast.Compare) and any(isinstance(o, ast.In) for o in n.test.ops)
                       and any(isinstance(x, ast.Name) and x.id == skip_name for x in ast.walk(n.test))), None)
    load_loop = next((n for n in outer_nodes if isinstance(n, ast.For) and ast.unparse(n.iter) == skip_name), None)
    ok = build_loop is not None and load_loop is not None and not any(build_loop.lineno < s < load_loop.lineno for s in stores) and \
        any(isinstance(x, ast.Continue) for x in ast.walk(build_loop))
    chk.ob('R18.6', 'the cases skipped when building work are exactly those reloaded from disk (same container, not reassigned in between)', ok,
           f'stores at {stores}', m.where(build_loop) if build_loop is not None else m.rel(), method='AST def-use')
    case_dirs(chk, m, f, worker, skip_name)
    chk.floor('R18.8', 3)
    chk.floor('R18.1', 2); chk.floor('R18.2', 2); chk.floor('R18.3', 2); chk.floor('R18.4', 3); chk.floor('R18.5', 2); chk.floor('R18.6', 1)


def header_expr(st):
    if isinstance(st, (ast.If, ast.While)): return st.test
    if isinstance(st, ast.For): return st.iter
    if isinstance(st, ast.With): return ast.Tuple(elts=[i.context_expr for i in st.items], ctx=ast.Load())
    if isinstance(st, (ast.Try, ast.ExceptHandler, ast.FunctionDef)): return ast.Constant(value=None)
    return st


def stmt_of(func, node):
    """innermost statement of func containing node"""
    best = None
    for st in ast.walk(func):
        if isinstance(st, ast.stmt) and any(n is node for n in ast.walk(st)):
            if best is None or (st.lineno >= best.lineno and sum(1 for _ in ast.walk(st)) < sum(1 for _ in ast.walk(best))):
                best = st
    return best


def inside(func, node):
    return any(n is node for n in ast.walk(func))


def is_global_like(name, mod):
    return name in mod.defs or name in mod.imports


def loop_var(func, name):
    for n in ast.walk(func):
        if isinstance(n, ast.For):
            if any(isinstance(t, ast.Name) and t.id == name for t in ast.walk(n.target)):
                return True
    return False


def flows_into(func, name, ret_names, depth=0):
    if name in ret_names: return True
    if depth > 4: return False
    for n in ast.walk(func):
        if isinstance(n, ast.Assign) and isinstance(n.targets[0], ast.Name):
            plain = all(isinstance(x, (ast.Name, ast.BinOp, ast.Add, ast.List, ast.Tuple, ast.Load, ast.Starred)) for x in ast.walk(n.value))
            if plain and any(isinstance(x, ast.Name) and x.id == name for x in ast.walk(n.value)) and n.targets[0].id != name:
                if flows_into(func, n.targets[0].id, ret_names, depth + 1): return True
    return False


def flag_reach(G, src, targets):
    """DFS over (node, flags) where flags maps boolean locals assigned constants; prunes `if flag` / `if not flag` edges. returns witness path or None"""
    start = (src, frozenset())
    stack = [(start, [src])]; seen = set()
    while stack:
        (n, fl), path = stack.pop()
        if (n, fl) in seen: continue
        seen.add((n, fl))
        if n in targets and n != src:
            return path
        st = G.nodes[n].get('stmt')
        flags = dict(fl)
        if isinstance(st, ast.ExceptHandler) or G.nodes[n].get('role') == 'handler':
            pass
        if isinstance(st, ast.Assign) and isinstance(st.targets[0], ast.Name) and isinstance(st.value, ast.Constant) and isinstance(st.value.value, bool):
            flags[st.targets[0].id] = st.value.value
        elif isinstance(st, ast.Assign) and isinstance(st.targets[0], ast.Name):
            flags.pop(st.targets[0].id, None)
        for _, v, dct in G.out_edges(n, data=True):
            if isinstance(st, ast.If):
                val = None
                t = st.test
                if isinstance(t, ast.Name) and t.id in flags: val = flags[t.id]
                if isinstance(t, ast.UnaryOp) and isinstance(t.op, ast.Not) and isinstance(t.operand, ast.Name) and t.operand.id in flags: val = not flags[t.operand.id]
                if val is not None and dct['kind'] in ('true', 'false') and dct['kind'] != ('true' if val else 'false'):
                    continue
            stack.append(((v, frozenset(flags.items())), path + [v]))
    return None


def journal(chk, m, f):
    """writer f-string vs reader split chain"""
    # namedtuple fields
    fields = None
    for st in m.tree.body:
        if isinstance(st, ast.Assign) and isinstance(st.targets[0], ast.Name) and st.targets[0].id == 'MultiprocessingInput':
            for c in ast.walk(st.value):
                if isinstance(c, ast.Tuple) and all(isinstance(e, ast.Constant) for e in c.elts):
                    fields = [e.value for e in c.elts]
    if not fields:
        raise AnalysisError('MultiprocessingInput fields not found')
    # writer: the f-string written inside the loop over input_data
    writer = None
    for n in ast.walk(f):
        if isinstance(n, ast.JoinedStr):
            consts = [v.value for v in n.values if isinstance(v, ast.Constant)]
            nfield = sum(isinstance(v, ast.FormattedValue) for v in n.values)
            if nfield >= len(fields) - 1 and len(set(consts)) >= 2 and any(len(c) >= 2 and not c.strip().isalnum() for c in consts):
                if nfield == len(fields):
                    writer = n
    if writer is None:
        raise AnalysisError('journal writer f-string not found')
    seps = [v.value for v in writer.values if isinstance(v, ast.Constant)]
    names = [ast.unparse(v.value) for v in writer.values if isinstance(v, ast.FormattedValue)]
    # map writer variables to tuple fields via `x = input_tuple.<field>`
    var_field = {}
    for n in ast.walk(f):
        if isinstance(n, ast.Assign) and isinstance(n.targets[0], ast.Name) and isinstance(n.value, ast.Attribute) and n.value.attr in fields:
            var_field.setdefault(n.targets[0].id, n.value.attr)
    wf = [var_field.get(v) for v in names]
    chk.ob('R18.4', 'journal writer emits the MultiprocessingInput fields in declaration order', wf == fields, f'writer order {wf} vs fields {fields}', m.where(writer), method='f-string structure')
    inner = [s for s in seps[:-1]]
    # reader: split constants
    splits = []
    for n in ast.walk(f):
        if isinstance(n, ast.Call) and isinstance(n.func, ast.Attribute) and n.func.attr == 'split' and n.args and isinstance(n.args[0], ast.Constant):
            splits.append((n.lineno, n.args[0].value))
    s1 = [s for _, s in splits if s == inner[0]]
    s2 = [s for _, s in splits if len(inner) > 1 and s == inner[1]]
    ok = bool(s1) and bool(s2) and len(set(inner[1:])) == 1 and len(inner) == len(fields) - 1 and seps[-1] == '\n'
    chk.ob('R18.4', 'reader splits on the same separators the writer emits (name separator, then one field separator), one line per input', ok,
           f'writer separators {seps}, reader split constants {[s for _, s in splits]}', m.where(writer), method='writer/reader table agreement')
    # must_include parser: characters removed must cover the str() of list and tuple containers
    removed = set()
    parse_node = None
    for n in ast.walk(f):
        if isinstance(n, ast.Call) and isinstance(n.func, ast.Attribute) and n.func.attr in ('replace', 'strip') and n.args and isinstance(n.args[0], ast.Constant) \
                and isinstance(n.args[0].value, str):
            chain = ast.unparse(n)
            if 'input_data[4]' in chain or 'must' in chain:
                for ch in n.args[0].value: removed.add(ch)
                parse_node = parse_node or n
        if isinstance(n, ast.Call) and ast.unparse(n.func) in ('ast.literal_eval', 'literal_eval') :
            removed |= set('[]()'); parse_node = parse_node or n
    if parse_node is None:
        raise AnalysisError('must_include parser not found')
    need = set('[]()')
    chk.ob('R18.4', 'the must_include parser accepts the journal text of list AND tuple values (brackets and parentheses removed)', need <= removed,
           f'characters stripped: {sorted(removed)}; a tuple is journalled as "(a, b)" and float("(a") fails on restart (also for the empty tuple "()")', m.where(parse_node),
           key='R18.4|must_include-parser', method='character-set coverage')
    # reader rebuilds the tuple with all fields, converting numeric ones
    conv = {}
    for n in ast.walk(f):
        if isinstance(n, ast.Assign) and isinstance(n.targets[0], ast.Subscript) and ast.unparse(n.targets[0].value) == 'input_data' and isinstance(n.targets[0].slice, ast.Constant):
            conv[n.targets[0].slice.value] = ast.unparse(n.value)[:20]
    expect_idx = {fields.index('start') - 1: 'float', fields.index('end') - 1: 'float', fields.index('n') - 1: 'int', fields.index('must_include') - 1: '['}
    okc = all(i in conv and conv[i].startswith(p) for i, p in expect_idx.items())
    chk.ob('R18.4', 'reader converts start/end to float, n to int and must_include to a list at the positions the writer put them', okc, f'conversions {conv}', m.where(writer), method='index table agreement')


# ---------------------------------------------------------------------------------------------- R18.8 case directory names
def fstring_shape(js):
    """JoinedStr -> (literal parts, hole expressions)"""
    lits = ['']; holes = []
    for v in js.values:
        if isinstance(v, ast.Constant):
            lits[-1] += str(v.value)
        else:
            holes.append(v.value); lits.append('')
    return lits, holes


def case_dirs(chk, m, f, worker, skip_name):
    """The per-case directory is the unit of the on-disk protocol: the worker creates it from (grid index, case number); on a restart the skip scan recovers the
    case number from its name, and the reload of a skipped case re-creates the name from (stored grid index, case number).  The three sites must agree."""
    # writer: in the worker, the f-string with two holes that mention the worker's parameters
    wparams = [a.arg for a in worker.args.args]
    wjs = [n for n in ast.walk(worker) if isinstance(n, ast.JoinedStr) and len(fstring_shape(n)[1]) == 2
           and all(isinstance(h, ast.Name) and h.id in wparams for h in fstring_shape(n)[1]) and any(isinstance(p, ast.Call) and 'join' in ast.unparse(p.func) and any(x is n for x in ast.walk(p)) for p in ast.walk(worker))]
    if len(wjs) != 1:
        raise AnalysisError(f'{m.where(worker)}: case-directory name (f-string of two worker parameters inside os.path.join) not identified ({len(wjs)} candidates)')
    wl, wh = fstring_shape(wjs[0])
    idx_param, num_param = wh[0].id, wh[1].id
    # reloader: an f-string in the driver (outside the worker) with the same number of holes whose second hole is the loop variable over the skip list
    loops = [l for l in ast.walk(f) if isinstance(l, ast.For) and isinstance(l.iter, ast.Name) and l.iter.id == skip_name and isinstance(l.target, ast.Name)]
    rel = []
    for l in loops:
        for n in ast.walk(l):
            if isinstance(n, ast.JoinedStr) and len(fstring_shape(n)[1]) == 2:
                rel.append((l, n))
    if not rel:
        raise AnalysisError(f'{m.where(f)}: reload of skipped cases (f-string directory name inside the loop over {skip_name}) not found')
    for l, n in rel:
        rl, rh = fstring_shape(n)
        ok = rl == wl and isinstance(rh[1], ast.Name) and rh[1].id == l.target.id
        chk.ob('R18.8', f'the directory a skipped case is reloaded from has the name the worker gave it ({"{}".join(wl)!r} with (grid index, case number))', ok,
               f'worker writes {"{}".join(wl)!r}, reload reads {"{}".join(rl)!r} with holes ({ast.unparse(rh[0])}, {ast.unparse(rh[1])})', m.where(n), key='R18.8|reload-name', method='f-string template agreement')
        # the grid index used in the name: stored per skipped case with the same constructor as the one handed to the worker
        store_exprs = []
        if isinstance(rh[0], ast.Subscript) and isinstance(rh[0].value, ast.Name):
            dname = rh[0].value.id
            for a in ast.walk(f):
                if isinstance(a, ast.Assign) and isinstance(a.targets[0], ast.Subscript) and isinstance(a.targets[0].value, ast.Name) and a.targets[0].value.id == dname:
                    store_exprs.append(a)
        # what the worker receives as its index parameter: element of the case tuple at the parameter's position
        pos = wparams.index(idx_param)
        case_elem = None
        for a in ast.walk(f):
            if isinstance(a, ast.Assign) and isinstance(a.value, ast.Tuple) and len(a.value.elts) > pos and any(isinstance(e_, ast.Starred) for e_ in a.value.elts):
                case_elem = a.value.elts[pos]
        ok2 = bool(store_exprs) and case_elem is not None and all(ast.dump(a.value) == ast.dump(case_elem) for a in store_exprs)
        chk.ob('R18.8', 'the grid index stored for a skipped case is built by the same expression as the one handed to the worker (same text in the directory name)', ok2,
               f'stored: {[ast.unparse(a.value) for a in store_exprs]}, handed to the worker: {ast.unparse(case_elem) if case_elem is not None else None}', m.where(store_exprs[0]) if store_exprs else m.where(n),
               key='R18.8|index-constructor', method='AST def-use')
    # scanner: int(<name>.split(SEP)[-1]) with SEP the literal between the two holes of the writer, the number being the last hole and nothing after it
    sep = wl[1]
    scans = [n for n in ast.walk(f) if isinstance(n, ast.Call) and isinstance(n.func, ast.Name) and n.func.id == 'int' and n.args and isinstance(n.args[0], ast.Subscript)
             and isinstance(n.args[0].value, ast.Call) and isinstance(n.args[0].value.func, ast.Attribute) and n.args[0].value.func.attr == 'split' and enclosing_function(f, n) is f
             and not any(isinstance(p, ast.With) and any(x is n for x in ast.walk(p)) for p in ast.walk(f))]
    if not scans:
        raise AnalysisError(f'{m.where(f)}: skip scan (int(<dir>.split(sep)[-1])) not found')
    for n in scans:
        sp = n.args[0].value
        sepv = sp.args[0].value if sp.args and isinstance(sp.args[0], ast.Constant) else None
        idx = n.args[0].slice
        last = isinstance(idx, ast.UnaryOp) and isinstance(idx.op, ast.USub) and isinstance(idx.operand, ast.Constant) and idx.operand.value == 1
        ok = sepv == sep and last and wl[2] == ''
        chk.ob('R18.8', f'the restart scan recovers the case number from the directory name the worker wrote (separator {sep!r}, number last)', ok,
               f'scan splits on {sepv!r} and takes element {ast.unparse(idx)}; the worker writes {"{}".join(wl)!r}', m.where(n), key='R18.8|scan-name', method='writer/reader template agreement')
