"""C18 -- an interrupted parameter study restarts without redoing or losing cases.

Decided by interpreting the study driver (and whatever helpers it is split into) on a finite model of its environment, see c18_model.py: every prefix of the
effect trace of a model study is a kill point; from each of them the driver is interpreted again on the same directory and the outcome compared with the
uninterrupted run."""
from __future__ import annotations
from ..core.report import AnalysisError
from ..frontend.pyfront import Repo
from .common import need_func
from . import c18_model as M

LEVEL = 'other'
TECHNIQUE = ('abstract interpretation of the study driver multiprocessing_run, its worker and their helpers on a finite model of the environment (file system = set of paths with contents and an '
             'effect trace, process pool = sequential application, study function = counting stub, clock / psutil = constants); every prefix of the effect trace of the model study, every '
             'combination of per-case progress of concurrent workers, and every pair of successive kills is a kill point from which the driver is interpreted again; outcomes compared with the '
             'uninterrupted model run')
LEVEL_TEXT = ('Decided on model studies (grids of 3 to 6 cases, one 12-case study for repeated restarts (case numbers of one and two digits); list / tuple / empty must-include, linear and log scales, pathos and stdlib pools, a case that raises): from every kill point the '
              'restarted study completes, every case ends with exactly one result equal to the uninterrupted run\'s, cases whose success marker had been written are not executed again, no case is '
              'executed twice, and every record carries the case number it was run under and the grid index of the inputs it was run with. The file system model makes every write call durable at '
              'once and np.savez two-phase (created incomplete, then complete), which is a superset of the states a killed process can leave.')
LEVEL_NOTE = ('Trusted: ast front-end, interpreter, the environment model (os / open / numpy save-load / pools as described in c18_model.py). Not decided: larger grids than the model studies '
              '(the driver treats cases uniformly), torn writes inside a single write call, behaviour of the real pool implementations, the forced-new-study path, post-processing.')
EXPLANATION = ('R18.1 from every kill point (prefix of the effect trace) the restarted study completes with exactly one result per case equal to the uninterrupted run; R18.2 from every kill point no '
               'completed case is executed again and no case twice; R18.3 uninterrupted run: one record per case carrying its own case number, grid index and result; R18.6 every combination of '
               'per-case progress (concurrent workers); R18.7 kill, restart, kill again, restart; R18.8 cases that raised in the first call and succeeded in the restart are not executed by any further call.')


TECHNIQUE += '; scenarios with a post-processing function (its directory and product file are part of the modelled file system)'

TECHNIQUE += '; numpy archives modelled as mappings with their member list, dtype tests and scalar conversions (np.float64 of a complex value), study results carrying a real and a complex number'

def run(chk):
    repo = Repo(chk.repo)
    m = repo.by_path('TidalPy/utilities/multiprocessing/multiprocessing.py')
    need_func(m, 'multiprocessing_run')
    chk.note_analysed('functions', 'multiprocessing_run and everything it calls inside the repository (interpreted)')
    M.explore(chk, repo, thorough=chk.tier != 'quick')
    M.explore_products(chk, repo, limit=None, seed=chk.seed)
    M.explore_double(chk, repo, stride=1 if chk.tier != 'quick' else 2)
    M.explore_repeated(chk, repo, stride=1 if chk.tier != 'quick' else 3)
    chk.assume('the cases of one study share nothing but the append-only study log; a killed process leaves the file system as it was after some write call (never inside one); '
               'np.savez leaves an unreadable file until it returns; the study function is deterministic')
    chk.floor('R18.1', 30); chk.floor('R18.2', 30); chk.floor('R18.3', 4); chk.floor('R18.6', 2); chk.floor('R18.7', 1); chk.floor('R18.8', 2)
