"""C13, layered model: history independence of a LayeredWorld (per-layer rheology, LayeredTides) on an abstract object graph.

The real classes are interpreted: PhysicsOrbit, LayeredWorld (through TidalWorld / BaseWorld), LayeredTides (through TidesBase), PhysicsLayer (through
LayerBase) and Rheology.  In a first pass the four model holders inside a Rheology (solid / liquid viscosity, partial melt, complex compliance) and the layer's cooling and
radiogenic models are stubs (in a second pass the four rheology holders are the repository's own classes, with only the numeric law inside uninterpreted: see real_holder); each stub's `calculate` is a pure, uninterpreted function of the *current* values of its live inputs (temperature; pre-melt and
liquid viscosity; tidal frequencies, viscosity and compliance), which is the contract of `LayerModelHolder.calculate`.  Whether the final per-layer and global
quantities equal those of a fresh graph therefore depends exactly on whether the update cascade re-runs every model whose inputs changed, in the right order.
"""
from __future__ import annotations
import ast
from ..core import expr as X
from ..core.interp import ArrBox, Interp, Obj, FuncRef, Opaque, RaiseSignal
from ..core.report import AnalysisError
from .common import need_class, need_func
from .c13 import make_interp, constructor_defaults, call, Sys

NOOP = lambda *a, **k: None


class StubObj(Obj):
    """model holder stand-in: `x.name` reads the backing field `_name` (what the holders' read-only properties do)"""
    def get(self, a):
        if a not in self.attrs and ('_' + a) in self.attrs:
            return self.attrs['_' + a]
        return super().get(a)


def model_stub(name, calc, **attrs):
    return StubObj(name=name, attrs={'calculate': calc, 'clear_state': NOOP, 'model': 'stub', **attrs})


def prop(it, obj, name):
    """value of `obj.name` as the interpreted class gives it (property, attribute or backing field)"""
    m = it.find_method(obj.cls, name) if obj.cls is not None else None
    if m is not None and any(ast.unparse(d_) == 'property' for d_ in m[1].decorator_list):
        return it.call(m[0], m[1], [], {}, self_obj=obj, owner=m[2])
    return obj.get(name)


def real_holder(repo, it, path, clsname, name, func, live_names, attrs):
    """a model holder of the repository's own class (its calculate / _calculate / properties are interpreted); only the numeric law it wraps (`func`) is an
    uninterpreted pure function of the arguments the holder passes to it, and the live arguments are read through the holder's own properties at call time"""
    mod = repo.by_path(path)
    cls = ('class', mod, need_class(mod, clsname))
    o = Obj(cls=cls, name=name, attrs=dict(attrs))
    constructor_defaults(it, o)
    mcalc = it.find_method(cls, '_calculate')
    if mcalc is None:
        raise AnalysisError(f'{clsname}._calculate vanished')
    o.attrs.update({'_model': 'law', '_func': func, '_func_array': func, '_func_array_defined': False, '_inputs': (X.atom(f'model_constant[{name}]', 'pos'),), '_live_inputs': None, '_debug_mode_on': False,
                    '_calc_to_use': FuncRef(mcalc[0], mcalc[1], cls=mcalc[2], bound=o), 'get_live_args': (lambda o=o: tuple(prop(it, o, n_) for n_ in live_names))})
    return o


def build(repo, it, st, obliq_on, layer_names=('core', 'mantle', 'crust'), tidal=(False, True, True), real_holders=False):
    mw = repo.by_path('TidalPy/structures/world_types/layered.py'); mo = repo.by_path('TidalPy/structures/orbit/physics.py'); mt = repo.by_path('TidalPy/tides/methods/layered.py')
    ml = repo.by_path('TidalPy/structures/layers/physics.py'); mr = repo.by_path('TidalPy/rheology/rheology.py'); mm = repo.by_path('TidalPy/tides/modes/mode_manipulation.py')
    Wc = ('class', mw, need_class(mw, 'LayeredWorld')); Oc = ('class', mo, need_class(mo, 'PhysicsOrbit')); Tc = ('class', mt, need_class(mt, 'LayeredTides'))
    Lc = ('class', ml, need_class(ml, 'PhysicsLayer')); Rc = ('class', mr, need_class(mr, 'Rheology'))
    s = Sys()
    s.host = Obj(name='host', attrs={'mass': st['M_host'], 'tides': None, 'tides_on': False, 'dUdM': None, 'dUdw': None, 'dUdO': None, 'orbit_spin_changed': NOOP, 'name': 'host', 'force_spin_sync': False,
                                    'is_spin_sync': False, '__index__': 0})
    fm = it.call(mm, need_func(mm, 'find_mode_manipulators'), [2, 2, obliq_on])
    s.tides = Obj(cls=Tc, name='tides', attrs={
        '_fixed_q': None, '_fixed_dt': None, '_fixed_k2': None, '_tidal_susceptibility': None, '_tidal_susceptibility_reduced': None, '_unique_tidal_frequencies': None,
        '_tidal_terms_by_frequency': None, '_tidal_heating_global': None, '_dUdM': None, '_dUdw': None, '_dUdO': None, '_effective_q_by_orderl': None, '_global_negative_imk_by_orderl': None,
        '_global_love_by_orderl': None, '_need_to_collapse_modes': False, '_new_tidal_frequencies': False, '_eccentricity_truncation_lvl': 2, '_max_tidal_order_lvl': 2, '_use_obliquity_tides': obliq_on,
        '_multiply_modes_by_sign': True, '_eccentricity_results': None, '_obliquity_results': None, 'calculate_modes_func': fm[0], 'collapse_modes_func': fm[1], 'eccentricity_func': fm[2], 'obliquity_func': fm[3],
        '_tidal_inputs': None, '_tidal_input_getters_by_layer': {}, '_world_tidal_input_getters': None, '_tidal_heating_by_layer': None, '_negative_imk_by_layer': None, 'model': 'layered',
        'config': {'use_planet_params_for_love_calc': False}})
    s.world = Obj(cls=Wc, name='world', attrs={
        '_spin_frequency': st['spin'], '_spin_period': None, '_obliquity': st['obl'], '_tides': s.tides, '_is_spin_sync': False, '_tides_on': True, '_force_spin_sync': False, 'mass': st['M_world'], 'moi': st['C'],
        'radius': st['R'], 'tidal_scale': X.ONE, 'density_bulk': st['rho'], 'gravity_surface': st['g'], 'name': 'world', 'world_class': 'layered', '_time': None, '_spin_time_derivative': None,
        '_tidal_polar_torque': None, 'update_surface_temperature': NOOP, '__index__': 1})
    s.tides.attrs['world'] = s.world; s.tides.attrs['_world'] = s.world
    s.layers = []
    for k, nm in enumerate(layer_names):
        lay = Obj(cls=Lc, name=nm, attrs={
            '_name': nm, '_layer_index': k, '_world': s.world, '_is_top_layer': k == len(layer_names) - 1, '_temperature': None, '_pressure': None, '_is_tidal': tidal[k],
            'tidal_scale': X.atom(f'tscale_{nm}', 'pos'), 'radius': X.atom(f'R_{nm}', 'pos'), 'density_bulk': X.atom(f'rho_{nm}', 'pos'), 'gravity_surface': X.atom(f'g_{nm}', 'pos'),
            'static_shear_modulus': X.atom(f'mu0_{nm}', 'pos'), 'quality_factor': None, 'beta': None, '_tidal_heating': None, 'type': 'rock', '_cooling': None, '_temperature_time_derivative': None})
        rhe = Obj(cls=Rc, name=f'rheology[{nm}]', attrs={'_layer': lay, '_world': s.world, 'layer_type': 'rock'})

        def visc_calc(lay=lay, rhe=rhe):
            T = lay.attrs['_temperature']
            rhe.attrs['_viscosity_model'].attrs['_viscosity'] = None if T is None else X.fn('eta_solid', T, X.atom(f'id_{lay.name}'))

        def liq_calc(lay=lay, rhe=rhe):
            T = lay.attrs['_temperature']
            rhe.attrs['_liquid_viscosity_model'].attrs['_viscosity'] = None if T is None else X.fn('eta_liquid', T, X.atom(f'id_{lay.name}'))

        def melt_calc(lay=lay, rhe=rhe):
            T = lay.attrs['_temperature']
            pm = rhe.attrs['_partial_melting_model']
            ev = rhe.attrs['_viscosity_model'].attrs['_viscosity']; el = rhe.attrs['_liquid_viscosity_model'].attrs['_viscosity']
            if T is None or ev is None or el is None:
                return
            ident = X.atom(f'id_{lay.name}')
            pm.attrs['_melt_fraction'] = X.fn('melt_fraction', T, ident)
            pm.attrs['_postmelt_viscosity'] = X.fn('eta_post', ev, el, T, ident)
            mu = X.fn('mu_post', lay.attrs['static_shear_modulus'], T, ident)
            pm.attrs['_postmelt_shear_modulus'] = mu
            pm.attrs['_postmelt_compliance'] = 1 / mu

        def comp_calc(lay=lay, rhe=rhe, s=s):
            cc = rhe.attrs['_complex_compliance_model']
            freqs = s.tides.attrs['_unique_tidal_frequencies']
            pm = rhe.attrs['_partial_melting_model']
            eta = pm.attrs['_postmelt_viscosity']; comp = pm.attrs['_postmelt_compliance']
            if freqs is None or comp is None or eta is None:
                return
            ident = X.atom(f'id_{lay.name}')
            cc.attrs['_complex_compliances'] = {sig: X.fn('J_model', fq, eta, comp, ident, X.I) for sig, fq in freqs.items()}
        if real_holders:
            ident = X.atom(f'id_{nm}')
            common = {'_layer': lay, '_world': s.world, '_rheology_class': rhe}
            lay.attrs.setdefault('_pressure', None); lay.attrs.setdefault('use_pressure_in_strength_calc', False)
            rhe.attrs['_viscosity_model'] = real_holder(repo, it, 'TidalPy/rheology/viscosity/viscosity.py', 'SolidViscosity', f'viscosity_model[{nm}]',
                                                        (lambda T, *rest, ident=ident: X.fn('eta_solid', X.lift(T), *[X.lift(r_) for r_ in rest], ident)), ('temperature',), dict(common, _viscosity=None))
            rhe.attrs['_liquid_viscosity_model'] = real_holder(repo, it, 'TidalPy/rheology/viscosity/viscosity.py', 'LiquidViscosity', f'liquid_viscosity_model[{nm}]',
                                                               (lambda T, *rest, ident=ident: X.fn('eta_liquid', X.lift(T), *[X.lift(r_) for r_ in rest], ident)), ('temperature',), dict(common, _viscosity=None))

            def melt_law(melt, T, ev, el, mu0, *rest, ident=ident):
                a_ = [X.lift(v_) for v_ in (melt, T, ev, el, mu0) + tuple(rest)]
                return X.fn('eta_post', *a_, ident), X.fn('mu_post', *a_, ident)
            rhe.attrs['_partial_melting_model'] = real_holder(repo, it, 'TidalPy/rheology/partial_melt/partialmelt.py', 'PartialMelt', f'partial_melting_model[{nm}]', melt_law,
                                                              ('temperature', 'premelt_viscosity', 'liquid_viscosity', 'premelt_shear'),
                                                              dict(common, solidus=X.atom(f'solidus_{nm}', 'pos'), liquidus=X.atom(f'liquidus_{nm}', 'pos'), use_partial_melt=True,
                                                                   _melt_fraction=None, _postmelt_viscosity=None, _postmelt_shear_modulus=None, _postmelt_compliance=None))
            rhe.attrs['_complex_compliance_model'] = real_holder(repo, it, 'TidalPy/rheology/complex_compliance/complex_compliance.py', 'ComplexCompliance', f'complex_compliance_model[{nm}]',
                                                                 (lambda fq, comp, eta, *rest, ident=ident: X.fn('J_model', X.lift(fq), X.lift(eta), X.lift(comp), *[X.lift(r_) for r_ in rest], ident, X.I)),
                                                                 ('compliance', 'viscosity'), dict(common, _complex_compliances=None))
            lay.attrs['_rheology'] = rhe
            lay.attrs['_cooling_model'] = model_stub('cooling_model', NOOP, model='off', _cooling=None, _cooling_flux=None)
            lay.attrs['_radiogenics'] = model_stub('radiogenics', NOOP, model='off', _heating=None)
            s.layers.append(lay)
            continue
        rhe.attrs['_viscosity_model'] = model_stub('viscosity_model', visc_calc, _viscosity=None)
        rhe.attrs['_liquid_viscosity_model'] = model_stub('liquid_viscosity_model', liq_calc, _viscosity=None)
        rhe.attrs['_partial_melting_model'] = model_stub('partial_melting_model', melt_calc, _postmelt_viscosity=None, _postmelt_shear_modulus=None, _postmelt_compliance=None, _melt_fraction=None)
        for a_, b_ in (('postmelt_viscosity', '_postmelt_viscosity'), ('postmelt_shear_modulus', '_postmelt_shear_modulus'), ('postmelt_compliance', '_postmelt_compliance'), ('melt_fraction', '_melt_fraction')):
            pass
        rhe.attrs['_complex_compliance_model'] = model_stub('complex_compliance_model', comp_calc, _complex_compliances=None)
        lay.attrs['_rheology'] = rhe
        lay.attrs['_cooling_model'] = model_stub('cooling_model', NOOP, model='off', _cooling=None, _cooling_flux=None)
        lay.attrs['_radiogenics'] = model_stub('radiogenics', NOOP, model='off', _heating=None)
        s.layers.append(lay)
    for k, lay in enumerate(s.layers):
        lay.attrs['_layer_below'] = s.layers[k - 1] if k > 0 else None
        lay.attrs['_layer_above'] = s.layers[k + 1] if k + 1 < len(s.layers) else None
    s.world.attrs['_layers'] = tuple(s.layers); s.world.attrs['__iter__'] = tuple(s.layers)
    s.world.attrs['_layers_by_name'] = {l.name: l for l in s.layers}
    s.world.attrs['_num_layers'] = len(s.layers)
    s.orbit = Obj(cls=Oc, name='orbit', attrs={
        '_eccentricities': [None, st['e']], '_semi_major_axes': [None, st['a']], '_orbital_frequencies': [None, None], '_orbital_periods': [None, None],
        '_tidal_objects': [s.host, s.world], '_tidal_host': s.host, '_star': None, '_host_tide_raiser': s.world, '_star_host': False, '_all_objects': [s.host, s.world],
        '_eccentricity_time_derivatives': [None, None], '_semi_major_axis_time_derivatives': [None, None], '_orbital_motion_time_derivatives': [None, None], '_last_calc_used_dual_body': False})
    s.world.attrs['orbit'] = s.orbit
    for o in (s.tides, s.world, s.orbit) + tuple(s.layers) + tuple(l.attrs['_rheology'] for l in s.layers):
        constructor_defaults(it, o)
    # the per-layer getters are created by the repository's own loop in LayeredTides.reinit (this is where late binding would bite)
    run_tides_reinit(it, s, Tc)
    return s


def run_tides_reinit(it, s, Tc):
    """LayeredTides.reinit as a re-initialisation (initial_init=False: it resets its own per-layer containers first), everything but the call of the parent's reinit"""
    f_reinit = it.find_method(Tc, 'reinit')
    if f_reinit is None or not any(isinstance(n, ast.For) for n in f_reinit[1].body):
        raise AnalysisError('LayeredTides.reinit: the loop that builds the per-layer tidal inputs vanished')
    from ..core.interp import Frame
    fr = Frame(f_reinit[0], 'reinit'); fr.vars['self'] = s.tides; fr.vars['initial_init'] = False
    fr.cls = f_reinit[2] if len(f_reinit) > 2 else None
    fr.self_obj = s.tides
    for st in f_reinit[1].body:
        if isinstance(st, ast.Expr) and isinstance(st.value, ast.Constant):
            continue            # docstring
        if isinstance(st, ast.Expr) and isinstance(st.value, ast.Call) and 'super()' in ast.unparse(st.value.func):
            continue            # parent reinit: configuration loading, modelled by the harness attributes
        it.exec(st, fr)


def state_atoms(tag, layer_names):
    st = {'M_host': X.atom('M_host', 'pos'), 'M_world': X.atom('M_world', 'pos'), 'C': X.atom('C_moi', 'pos'), 'R': X.atom('R', 'pos'), 'rho': X.atom('rho', 'pos'), 'g': X.atom('g', 'pos'),
          'spin': X.atom(f'spin{tag}'), 'obl': X.atom(f'obl{tag}'), 'e': X.atom(f'e{tag}', 'pos'), 'a': X.atom(f'a{tag}', 'pos')}
    for nm in layer_names:
        st[f'T_{nm}'] = X.atom(f'T_{nm}{tag}', 'pos')
    return st


def full_init(it, s, st, layer_names):
    call(it, s.orbit, 'set_semi_major_axis', s.world, s.orbit.attrs['_semi_major_axes'][1], called_from_orbit=False)
    call(it, s.world, 'orbit_spin_changed', orbital_freq_changed=True, spin_freq_changed=True, eccentricity_changed=True, obliquity_changed=True)
    for lay, nm in zip(s.layers, layer_names):
        call(it, lay, 'set_temperature', st[f'T_{nm}'])


def exposed(s):
    out = {q: s.tides.attrs.get(q) for q in ('_tidal_heating_global', '_dUdM', '_dUdw', '_dUdO', '_tidal_susceptibility')}
    uf = s.tides.attrs.get('_unique_tidal_frequencies')
    if isinstance(uf, dict):
        for sig, v in uf.items(): out[f'unique_frequency{sig}'] = v
    for nm in ('_global_love_by_orderl', '_global_negative_imk_by_orderl'):
        lv = s.tides.attrs.get(nm)
        if isinstance(lv, dict):
            for l, v in lv.items(): out[f'{nm.lstrip("_")}[{l}]'] = v
    hb = s.tides.attrs.get('_tidal_heating_by_layer')
    for lay in s.layers:
        out[f'tidal heating of layer {lay.name}'] = hb.get(lay) if isinstance(hb, dict) else None
        cc = lay.attrs['_rheology'].attrs['_complex_compliance_model'].attrs['_complex_compliances']
        # compliances of a layer that does not take part in tides are not an input of anything the property lists (and Rheology.tidal_frequencies_changed
        # deliberately skips such layers), so they are not compared
        if isinstance(cc, dict) and lay.attrs['_is_tidal']:
            for sig, v in cc.items(): out[f'complex compliance of {lay.name} at {sig}'] = v
        out[f'viscosity of {lay.name}'] = lay.attrs['_rheology'].attrs['_partial_melting_model'].attrs['_postmelt_viscosity']
    out['de/dt'] = s.orbit.attrs['_eccentricity_time_derivatives'][1]
    out['da/dt'] = s.orbit.attrs['_semi_major_axis_time_derivatives'][1]
    out['n'] = s.orbit.attrs['_orbital_frequencies'][1]
    return out


def mutators(layer_names):
    M = {
        'orbit.set_eccentricity': ('e', lambda it, s, v: call(it, s.orbit, 'set_eccentricity', s.world, v)),
        'world.set_obliquity': ('obl', lambda it, s, v: call(it, s.world, 'set_obliquity', v)),
        'world.set_spin_frequency': ('spin', lambda it, s, v: call(it, s.world, 'set_spin_frequency', v)),
        'orbit.set_semi_major_axis': ('a', lambda it, s, v: call(it, s.orbit, 'set_semi_major_axis', s.world, v)),
        'world.set_state(eccentricity)': ('e', lambda it, s, v: call(it, s.world, 'set_state', eccentricity=v)),
        'world.set_state(spin_frequency)': ('spin', lambda it, s, v: call(it, s.world, 'set_state', spin_frequency=v)),
    }
    for k, nm in enumerate(layer_names):
        M[f'{nm}.set_temperature'] = (f'T_{nm}', lambda it, s, v, k=k: call(it, s.layers[k], 'set_temperature', v))
        M[f'{nm}.set_state(temperature)'] = (f'T_{nm}', lambda it, s, v, k=k: call(it, s.layers[k], 'set_state', temperature=v))
    return M


def run_layered(chk, repo, rule='R13.7'):
    layer_names = ('core', 'mantle', 'crust')
    M = mutators(layer_names)
    d = X.Decider(seed=chk.seed + 3, k=2, positive=[X.atom('M_host', 'pos') + X.atom('M_world', 'pos')])
    mt = repo.by_path('TidalPy/tides/methods/layered.py')
    singles = list(M)
    if chk.tier == 'quick':
        pairs = [('mantle.set_temperature', 'orbit.set_eccentricity'), ('orbit.set_semi_major_axis', 'crust.set_temperature'), ('world.set_spin_frequency', 'mantle.set_state(temperature)'),
                 ('crust.set_temperature', 'mantle.set_temperature'), ('orbit.set_eccentricity', 'world.set_obliquity')]
    else:
        base = ['orbit.set_eccentricity', 'world.set_obliquity', 'world.set_spin_frequency', 'orbit.set_semi_major_axis', 'mantle.set_temperature', 'crust.set_temperature', 'core.set_temperature']
        pairs = [(a_, b_) for a_ in base for b_ in base if a_ != b_]
    seqs = [(m_,) for m_ in singles] + pairs + [('mantle.set_temperature', 'orbit.set_eccentricity', 'again: mantle.set_temperature'), ('orbit.set_eccentricity', 'crust.set_temperature', 'again: orbit.set_eccentricity')]
    # the same histories with the repository's own model holders (SolidViscosity, LiquidViscosity, PartialMelt, ComplexCompliance: calculate / _calculate / properties
    # interpreted; only the numeric law inside is an uninterpreted pure function): what a holder keeps between calls is part of the history
    temp_singles = [m_ for m_ in singles if 'temperature' in m_]
    real_seqs = [(m_,) for m_ in temp_singles] + [('mantle.set_temperature', 'mantle.set_temperature'), ('mantle.set_temperature', 'orbit.set_eccentricity'),
                                                   ('world.set_spin_frequency', 'crust.set_temperature'), ('crust.set_temperature', 'mantle.set_state(temperature)'),
                                                   ('mantle.set_temperature', 'mantle.set_temperature', 'again: mantle.set_temperature')]
    if chk.tier != 'quick':
        real_seqs += [(a_, b_) for a_ in temp_singles for b_ in temp_singles if (a_, b_) not in real_seqs] + [(m_,) for m_ in singles if m_ not in temp_singles]
    nseq = 0
    for obliq_on in ((True,) if chk.tier == 'quick' else (True, False)):
      for real in (False, True):
        model = 'layered world (core not tidal, mantle and crust tidal), obliquity tides ' + ('on' if obliq_on else 'off') + (', the repository\'s own model holders' if real else '')
        array_seqs = [('crust.set_temperature',), ('mantle.set_temperature', 'crust.set_temperature'), ('crust.set_temperature', 'crust.set_temperature'),
                      ('core.set_temperature', 'crust.set_temperature', 'again: core.set_temperature'), ('orbit.set_eccentricity', 'mantle.set_temperature')]
        for arrays, seq in [(False, q_) for q_ in (real_seqs if real else seqs)] + ([] if real else [(True, q_) for q_ in array_seqs]):
            nseq += 1
            st0 = state_atoms('0', layer_names)
            final = dict(st0)
            if arrays:
                model_ = model; model = model_ + ', array-valued state'

            def mk_interp(fork=None, arrays=arrays):
                it = make_interp(repo)
                it.array_mode = arrays
                if fork is not None: it.hooks['fork'] = fork
                if real:
                    prev = it.hooks.get('call')

                    def call_hook(itp, f, args, kwargs, e, fr, prev=prev):
                        if isinstance(f, FuncRef) and f.node.name in ('calculate_melt_fraction', 'calculate_melt_fraction_array'):
                            return X.fn('melt_fraction', *[X.lift(a_) for a_ in args])        # the melting law itself is C19's business
                        return prev(itp, f, args, kwargs, e, fr) if prev is not None else NotImplemented
                    it.hooks['call'] = call_hook
                return it

            def history(fork, seq=seq, st0=st0, final=final):
                it = mk_interp(fork)
                box = (lambda v_: ArrBox(v_) if isinstance(v_, X.Node) else v_) if arrays else (lambda v_: v_)
                st0b = {k_: box(v_) for k_, v_ in st0.items()} if arrays else st0
                s = build(repo, it, st0b, obliq_on, layer_names, real_holders=real)
                full_init(it, s, st0b, layer_names)
                sent = {}
                for i, mname in enumerate(seq):
                    again = mname.startswith('again: ')          # the value of an earlier step is sent once more (A ; B ; A)
                    key, fn_ = M[mname[7:] if again else mname]
                    newv = sent[mname[7:]] if again else X.atom(f'{key}_new{i + 1}', 'pos' if key[0] in 'eaT' else 'real')
                    sent[mname] = newv
                    fn_(it, s, box(newv))
                    final[key] = newv
                return {q_: getattr(v_, 'v', v_) for q_, v_ in exposed(s).items()}

            def fresh(fork):
                it2 = mk_interp(fork, arrays=False)          # the reference: a fresh world in the final state, element by element (scalar semantics)
                sf = build(repo, it2, final, obliq_on, layer_names, real_holders=real)
                full_init(it2, sf, final, layer_names)
                return {q_: getattr(v_, 'v', v_) for q_, v_ in exposed(sf).items()}
            try:
                from .c13 import explore_history
                from ..core.interp import PathExplorer
                if real:
                    # a data-dependent test inside a holder (melt present or not, ...) may come out either way at every call: every combination is a history
                    from .c13 import exact_coincidence
                    outcomes = [(PathExplorer.label(tr_), g_) for tr_, g_ in PathExplorer(max_paths=256).run(history) if not exact_coincidence(tr_)]
                    refs = [g_ for _t, g_ in PathExplorer(max_paths=64).run(fresh)]
                else:
                    got, path_label = explore_history(history)
                    outcomes = [(path_label, got)]
                    refs = [fresh(None)]
            except RaiseSignal as ex:
                try:
                    fresh(None)
                except RaiseSignal:
                    raise AnalysisError(f'sequence {seq} on {model}: unexpected raise {ex.text}')
                # the history raises where a fresh world in the same final state does not: that is a history-dependent outcome
                inst = f'{model}: after {" ; ".join(seq)} every exposed quantity (global and per layer) equals that of a fresh world in the final state'
                chk.ob(rule, inst, False, f'the sequence raises {ex.text[:120]}; a fresh world placed in the final state does not', mt.rel(), key=f'{rule}|{model}|{"+".join(seq)}',
                       method='abstract object graph + GF(p^2) PIT')
                continue

            def differences(got, ref):
                bad = []
                for q in sorted(set(got) | set(ref)):
                    a_, b_ = got.get(q), ref.get(q)
                    if a_ is None and b_ is None: continue
                    if not (isinstance(a_, X.Node) and isinstance(b_, X.Node)):
                        bad.append(f'{q}: {"unset" if a_ is None else "set"} after the sequence, {"unset" if b_ is None else "set"} on a fresh world'); continue
                    if a_ is not b_ and not d.equal(a_, b_):
                        bad.append(f'{q.lstrip("_")} differs from a fresh world in the final state')
                return bad
            bad = []
            for path_label, got in outcomes:
                per_ref = [differences(got, ref) for ref in refs]
                if all(per_ref):           # no outcome of the fresh world's own tests reproduces this history's result
                    bad = [x_ + path_label for x_ in min(per_ref, key=len)]
                    break
            inst = f'{model}: after {" ; ".join(seq)} every exposed quantity (global and per layer) equals that of a fresh world in the final state'
            chk.ob(rule, inst, not bad, '; '.join(bad[:4]), mt.rel(), key=f'{rule}|{model}|{"+".join(seq)}',
                   method='abstract object graph (' + ('real model holders, numeric laws uninterpreted' if real else 'stubbed model holders') + (', arrays as mutable cells' if arrays else '') + ') + GF(p^2) PIT')
            if arrays: model = model_
    chk.note_analysed('layered mutator sequences', nseq)
    return nseq


def functional(chk, repo, rule='R13.8'):
    """a fully updated layered world reports, per layer and globally, what the functional API gives with that layer's own radius, density, gravity, tidal scale,
    shear modulus and complex compliances (so a getter bound to the wrong layer, or a layer fed another layer's rheology, is a violation)"""
    layer_names = ('core', 'mantle', 'crust')
    d = X.Decider(seed=chk.seed + 5, k=2, positive=[X.atom('M_host', 'pos') + X.atom('M_world', 'pos')])
    mm = repo.by_path('TidalPy/tides/modes/mode_manipulation.py'); mdis = repo.by_path('TidalPy/tides/dissipation.py'); mconv = repo.by_path('TidalPy/utilities/conversions/conversions.py')
    mt = repo.by_path('TidalPy/tides/methods/layered.py')
    for obliq_on in (True, False):
        it = make_interp(repo)
        st = state_atoms('0', layer_names)
        s = build(repo, it, st, obliq_on, layer_names)
        full_init(it, s, st, layer_names)
        got = exposed(s)
        itf = Interp(repo)
        n = itf.call(mconv, need_func(mconv, 'semi_a2orbital_motion'), [st['a'], st['M_host'], st['M_world']])
        fm = itf.call(mm, need_func(mm, 'find_mode_manipulators'), [2, 2, obliq_on])
        sus = itf.call(mdis, need_func(mdis, 'calc_tidal_susceptibility'), [st['M_host'], st['R'], st['a']])
        er = itf.apply(fm[2], [st['e']], {}, None, None)             # (table functions or callable wrappers around them)
        ob = itf.apply(fm[3], [st['obl'] if obliq_on else X.ZERO], {}, None, None)
        uniq, terms = itf.call(mm, need_func(mm, 'calculate_terms'), [st['spin'], n, st['a'], st['R'], er, ob], {'multiply_modes_by_sign': True})
        tot = [X.ZERO] * 4
        bad = []
        for lay in s.layers:
            nm = lay.name
            if not lay.attrs['_is_tidal']:
                if got.get(f'tidal heating of layer {nm}') is not None:
                    bad.append(f'non-tidal layer {nm} reports tidal heating')
                continue
            ident = X.atom(f'id_{nm}'); T = st[f'T_{nm}']
            ev = X.fn('eta_solid', T, ident); el = X.fn('eta_liquid', T, ident)
            eta = X.fn('eta_post', ev, el, T, ident); mu = X.fn('mu_post', lay.attrs['static_shear_modulus'], T, ident)
            J = {sig: X.fn('J_model', fq, eta, 1 / mu, ident, X.I) for sig, fq in uniq.items()}
            out = itf.call(mm, need_func(mm, 'collapse_modes'), [lay.attrs['gravity_surface'], lay.attrs['radius'], lay.attrs['density_bulk'], mu, lay.attrs['tidal_scale'], st['M_host'], sus, J, terms, 2],
                           {'cpl_ctl_method': False})
            gv = got.get(f'tidal heating of layer {nm}')
            if not isinstance(gv, X.Node) or not d.equal(gv, out[0]):
                bad.append(f'tidal heating of layer {nm} is not collapse_modes(...) evaluated with that layer\'s own radius, density, gravity, tidal scale, shear modulus and compliances')
            for c in range(4): tot[c] = tot[c] + out[c]
        for q, c in (('_tidal_heating_global', 0), ('_dUdM', 1), ('_dUdw', 2), ('_dUdO', 3)):
            gv = got.get(q)
            if not isinstance(gv, X.Node) or not d.equal(gv, tot[c]):
                bad.append(f'{q.lstrip("_")} is not the sum over the tidal layers')
        chk.ob(rule, f'layered world, obliquity tides {"on" if obliq_on else "off"}: per-layer heating == functional API with the layer\'s own inputs; global heating and potential derivatives == sums over tidal layers',
               not bad, '; '.join(bad[:4]), mt.rel(), key=f'{rule}|layered|{obliq_on}', method='abstract object graph vs interpreted functional pipeline, GF(p^2) PIT')


def geometry_history(chk, repo, rule='R12.9'):
    """C12 through the object-oriented path: the Love numbers a LayeredTides reports for a one-layer world are computed from the layer's radius, bulk density and surface gravity
    *as they are now*.  The geometry is changed after the tides object was initialised (what set_geometry does to those attributes), an ordinary update re-collapses the modes,
    and every exposed quantity must equal that of a world built with the new geometry from the start."""
    d = X.Decider(seed=chk.seed + 7, k=2, positive=[X.atom('M_host', 'pos') + X.atom('M_world', 'pos')])
    mt = repo.by_path('TidalPy/tides/methods/layered.py')
    names = ('only',)
    new_geo = {'radius': X.atom('R_only_new', 'pos'), 'density_bulk': X.atom('rho_only_new', 'pos'), 'gravity_surface': X.atom('g_only_new', 'pos')}
    new_world = {'radius': X.atom('R_new', 'pos'), 'density_bulk': X.atom('rho_new', 'pos'), 'gravity_surface': X.atom('g_new', 'pos')}
    for planet_params in (False, True):
        for trigger in ('only.set_temperature', 'orbit.set_eccentricity'):
            st0 = state_atoms('0', names)
            Tn = X.atom('T_only_final', 'pos'); en = X.atom('e_final', 'pos')

            def apply_geo(s):
                for k_, v_ in new_geo.items(): s.layers[0].attrs[k_] = v_
                for k_, v_ in new_world.items(): s.world.attrs[k_] = v_

            def run(history):
                it = make_interp(repo)
                # the tides object is (re)initialised with the geometry the world has at that moment: the old one for the history, the new one for the fresh world
                s = build_with_geo(repo, it, st0, names, planet_params, (lambda s_: None) if history else apply_geo)
                full_init(it, s, st0, names)
                if history:
                    apply_geo(s)
                if trigger == 'only.set_temperature':
                    call(it, s.layers[0], 'set_temperature', Tn)
                else:
                    call(it, s.layers[0], 'set_temperature', Tn)
                    call(it, s.orbit, 'set_eccentricity', s.world, en)
                return exposed(s)
            try:
                got = run(True); ref = run(False)
            except RaiseSignal as ex:
                raise AnalysisError(f'{rule}: unexpected raise {ex.text}')
            bad = []
            love_keys = [q for q in sorted(set(got) | set(ref)) if q.startswith(('global_love_by_orderl', 'global_negative_imk_by_orderl'))]
            if not love_keys:
                raise AnalysisError(f'{rule}: the tides object exposes no Love numbers by order l')
            for q in love_keys:
                a_, b_ = got.get(q), ref.get(q)
                if not (isinstance(a_, X.Node) and isinstance(b_, X.Node)) or (a_ is not b_ and not d.equal(a_, b_)):
                    bad.append(f'{q.lstrip("_")} is not what a world built with the new geometry reports')
            chk.ob(rule, f'one-layer LayeredWorld (use_planet_params_for_love_calc={planet_params}): radius, density and gravity change after the tides were initialised, then {trigger}: '
                   'the Love numbers (and -Im k) by order l are those of the current geometry', not bad, '; '.join(bad[:4]), mt.rel(), key=f'{rule}|{planet_params}|{trigger}',
                   method='abstract object graph (real LayeredTides, getters built by its own reinit loop) + GF(p^2) PIT')


def build_with_geo(repo, it, st, names, planet_params, apply_geo):
    """a one-layer world whose layer / world geometry attributes are set BEFORE LayeredTides.reinit builds its per-layer inputs"""
    import ast as _ast
    s = build(repo, it, st, True, names, tidal=(True,))
    s.tides.attrs['config'] = {'use_planet_params_for_love_calc': planet_params}
    apply_geo(s)
    mt = repo.by_path('TidalPy/tides/methods/layered.py')
    Tc = ('class', mt, need_class(mt, 'LayeredTides'))
    run_tides_reinit(it, s, Tc)
    return s
