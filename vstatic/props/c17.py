"""C17 — unit/orbital conversions are exact inverses and agree across implementations; orbit stays Keplerian."""
from __future__ import annotations
import ast, glob, os, re
from fractions import Fraction as F
from ..core import expr as X
from ..core.interp import Interp, Obj, FuncRef, Opaque
from ..core.report import AnalysisError
from ..frontend.pyfront import Repo
from .common import need_func, need_class, methods, make_eq

LEVEL = 'other'
TECHNIQUE = 'abstract interpretation of the conversion helpers (py and pyx twins) with polynomial identity testing of f(g(x)) = x and twin agreement (constants compared as exact rationals); ownership lint over the whole package; orbit mutators interpreted on a symbolic orbit object and the resulting stores checked for Kepler consistency, with the real world_signature_to_index interpreted on a star + host + two moons graph; histories in which a mass changes and the same value is sent again (equality short-cuts)'
LEVEL_TEXT = ('Inverse pairs and twin agreement are exact real-number identities for all positive inputs; the orbit clause is decided for every public mutator path by interpreting the '
              'mutator on a symbolic orbit and checking the three stored Kepler quantities against each other, plus a who-may-write rule over all modules.')
LEVEL_NOTE = ('Trusted: front-ends, interpreter, real algebra; the rounding error of the inverse pairs is bounded to first order by an operation count (R17.7), not to the last ulp. scipy.constants.G is read from the installed scipy source text (external).')
EXPLANATION = ('R17.1 inverse pairs (py and pyx); R17.2 py twin == pyx twin incl. constants; R17.3 only OrbitBase methods store the Kepler lists, property setters raise; '
               'R17.4 after every mutator the stored (a, n, P) of that world satisfy Kepler III with (host mass, world mass) and P = 2 pi / n / 86400, or are all cleared, setters write exactly the designated slot and getters read the slot the setters write; R17.5 no in-place update of arguments; R17.7 every round trip is built from well-conditioned operations only and its first-order rounding bound K u has K <= 16 (K recorded in the evidence).')
EXPLANATION += ' R17.6 the array twin: every interpreted call repeated with array arguments (mutable cells) returns the scalar values element for element and leaves the arguments intact.'
EXPLANATION += (' R17.8 no single-precision C local takes part in the compiled conversions. R17.9 every exit of an orbit mutator, returning or raising, with TidalPy.extensive_checks off and on and every '
                'outcome of the tests made on the value, leaves each slot untouched or holding a complete Kepler-consistent (a, n, P); update sequences of two and three calls from populated and cleared orbits.')

PAIRS = (('m2Au', 'Au2m'), ('rads2days', 'days2rads'), ('sec2myr', 'myr2sec'), ('orbital_motion2semi_a', 'semi_a2orbital_motion'))


def scipy_G():
    """CODATA value scipy exports as G, read from scipy/constants/_codata.py source text"""
    for base in ('/venv/lib/python3.12/site-packages', *glob.glob('/venv/lib/python3*/site-packages')):
        p = os.path.join(base, 'scipy/constants/_codata.py')
        if os.path.exists(p):
            src = open(p, encoding='utf-8').read()
            m = re.search(r'_current_constants\s*=\s*_physical_constants_(\d+)', src)
            year = m.group(1) if m else None
            # tables appear in chronological order; pick the table assigned to txt<year>
            tabs = re.split(r'\ntxt(\d+)\s*=\s*"""', src)
            vals = {}
            for i in range(1, len(tabs), 2):
                mm = re.search(r'^Newtonian constant of gravitation\s{2,}([\d .]+e[+-]?\d+)', tabs[i + 1], re.M)
                if mm:
                    vals[tabs[i]] = F(mm.group(1).replace(' ', ''))
            if year in vals:
                return vals[year], f'scipy CODATA {year}'
            if vals:
                k = sorted(vals)[-1]
                return vals[k], f'scipy CODATA {k} (latest table)'
    return None, 'scipy source not found'


EXPLANATION += ' R17.10 no integer-literal power (negative, or >= 3) is taken of a quantity that stays an integer when the arguments are integers (numba types arithmetic by its arguments: 0 for a negative power, silent int64 wrap-around for a large one).'
TECHNIQUE += '; syntactic type flow in numba-compiled kernels (integer-literal powers of integer-typed arguments)'

EXPLANATION += " R17.11 an array shared between two worlds' slots (handed to both, or read back from the orbit and handed on): after one world is updated through another quantity both triples are Kepler-consistent, the other world keeps what it was given and the caller's array is intact."

TECHNIQUE += '; orbit mutators interpreted with array-valued quantities as mutable cells shared between slots'

def run(chk):
    repo = Repo(chk.repo)
    # R17.10: integer arguments are values like any other; numba keeps them integers until they meet a float (an integer-literal power is taken first)
    from .common import int_power_lint
    int_power_lint(chk, repo, 'R17.10', ['TidalPy/utilities/conversions/conversions.py'])
    mp = repo.by_path('TidalPy/utilities/conversions/conversions.py')
    mx = repo.by_path('TidalPy/utilities/conversions/conversions_x.pyx')
    it = Interp(repo)
    x = X.atom('x', 'pos'); M = X.atom('M_host', 'pos'); m = X.atom('m_target', 'pos')
    d = X.Decider(seed=chk.seed, k=3 if chk.tier == 'quick' else 10)
    eq = make_eq(chk, d)
    from .common import ArrayTwin
    twin = ArrayTwin(chk, 'R17.6', it, d)
    gval, gsrc = scipy_G()
    chk.note_analysed('external', f'G from {gsrc}: {float(gval) if gval else None}')

    def G_py(node):
        return X.subst(node, {'const_G': X.const(gval)}) if gval is not None else node

    def call(mod, name, args):
        return it.call(mod, need_func(mod, name), list(args))
    for (f, g) in PAIRS:
        extra = [M, m] if 'orbital' in f else []
        for mod, pre, lab in ((mp, '', 'py'), (mx, 'cf_', 'pyx cf_'), (mx, '', 'pyx def')):
            fa, ga = pre + f, pre + g
            v1 = call(mod, fa, [call(mod, ga, [x] + extra)] + extra)
            v2 = call(mod, ga, [call(mod, fa, [x] + extra)] + extra)
            eq('R17.1', f'{lab}: {fa}({ga}(x)) == x', v1, x, mod.where(need_func(mod, fa)))
            eq('R17.1', f'{lab}: {ga}({fa}(x)) == x', v2, x, mod.where(need_func(mod, ga)))
            # "to rounding": the round trip is a composition of products, quotients, roots and sums of positive terms only (no cancellation, no exp / log of the input),
            # so its relative error is at most K u to first order, K counted on the extracted expression
            from .common import rounding_count
            for comp, val in ((f'{fa}({ga}(x))', v1), (f'{ga}({fa}(x))', v2)):
                K_ = rounding_count(X.lift(val))
                ok = K_ is not None and K_ <= 16
                chk.ob('R17.7', f'{lab}: {comp} returns x to rounding: well-conditioned operations only, first-order error bound K u with K <= 16', ok,
                       ('the expression contains a difference / a sum of terms of unknown sign / a transcendental function of the input: its rounding error is not bounded relative to x'
                        if K_ is None else f'K = {float(K_):.3g}'), mod.where(need_func(mod, fa)), key=f'R17.7|{lab}|{comp}', method='first-order rounding count over the extracted expression')
                if K_ is not None: chk.note_analysed('rounding bounds', f'{lab} {comp}: K = {float(K_):.3g}')
    # the same with EVERY parameter given explicitly (a symbol per parameter, matched by name between the helpers of a pair and between twins): an optional parameter
    # one helper honours and its inverse ignores -- or that the Python twin ignores and the compiled one honours -- breaks the round trip only when it is passed
    ROLE = {'host_mass': M, 'target_mass': m}

    def full_args(mod, name):
        f_ = need_func(mod, name)
        ps = [a_.arg for a_ in f_.args.args]
        out = []
        for pn in ps[1:]:
            if pn not in ROLE:
                ROLE[pn] = X.atom(f'given_{pn}', 'pos')
            out.append((pn, ROLE[pn]))
        return out
    for (f, g) in PAIRS:
        for mod, pre, lab in ((mp, '', 'py'), (mx, 'cf_', 'pyx cf_'), (mx, '', 'pyx def')):
            fa, ga = pre + f, pre + g
            pf, pg = full_args(mod, fa), full_args(mod, ga)
            if not pf and not pg:
                continue
            if [n_ for n_, _ in pf] != [n_ for n_, _ in pg]:
                chk.ob('R17.1', f'{lab}: {fa} and its inverse {ga} take the same further parameters', False, f'{[n_ for n_, _ in pf]} vs {[n_ for n_, _ in pg]}', mod.where(need_func(mod, fa)),
                       key=f'R17.1|params|{lab}|{fa}', method='signatures')
                continue
            kw_ = dict(pf)
            v1 = it.call(mod, need_func(mod, fa), [it.call(mod, need_func(mod, ga), [x], dict(kw_))], dict(kw_))
            v2 = it.call(mod, need_func(mod, ga), [it.call(mod, need_func(mod, fa), [x], dict(kw_))], dict(kw_))
            eq('R17.1', f'{lab}: {fa}({ga}(x, ...), ...) == x with every parameter ({", ".join(kw_)}) passed explicitly', v1, x, mod.where(need_func(mod, fa)))
            eq('R17.1', f'{lab}: {ga}({fa}(x, ...), ...) == x with every parameter ({", ".join(kw_)}) passed explicitly', v2, x, mod.where(need_func(mod, ga)))
    for pair in PAIRS:
        for f in pair:
            pp = dict(full_args(mp, f)); px = dict(full_args(mx, 'cf_' + f)); pd_ = dict(full_args(mx, f))
            common = [n_ for n_ in pp if n_ in px]
            if not common:
                continue
            vp = G_py(it.call(mp, need_func(mp, f), [x], {n_: pp[n_] for n_ in common}))
            vx = it.call(mx, need_func(mx, 'cf_' + f), [x], {n_: px[n_] for n_ in common})
            eq('R17.2', f'{f}: Python == compiled cf_{f} with the parameters they share ({", ".join(common)}) passed explicitly', vp, vx, mp.where(need_func(mp, f)), key=f'R17.2|explicit|{f}')
            commond = [n_ for n_ in pd_ if n_ in px]
            vd = it.call(mx, need_func(mx, f), [x], {n_: pd_[n_] for n_ in commond})
            vx2 = it.call(mx, need_func(mx, 'cf_' + f), [x], {n_: px[n_] for n_ in commond})
            eq('R17.2', f'{f}: compiled def wrapper == cf_{f} with the parameters they share passed explicitly', vd, vx2, mx.where(need_func(mx, f)))
    # twins
    for pair in PAIRS:
        for f in pair:
            extra = [M, m] if 'orbital' in f else []
            vp = G_py(call(mp, f, [x] + extra)); vx = call(mx, 'cf_' + f, [x] + extra); vd = call(mx, f, [x] + extra)
            eq('R17.2', f'{f}: Python == compiled cf_{f} (constants included)', vp, vx, mp.where(need_func(mp, f)), key=f'R17.2|{f}')
            eq('R17.2', f'{f}: compiled def wrapper == cf_{f}', vd, vx, mx.where(need_func(mx, f)))
    # Kepler reference
    Gx = it.global_name(repo.by_path('TidalPy/utilities/constants_x.pyx'), 'G')
    chk.ob('R17.2', 'G in constants_x.pyx == scipy.constants.G', gval is not None and X.lift(Gx).op == 'const' and X.lift(Gx).val == gval,
           f'pyx {X.show(X.lift(Gx))} vs {gsrc} {gval}', 'TidalPy/utilities/constants_x.pyx', method='exact rational comparison')
    eq('R17.1', 'py: orbital_motion2semi_a(n)^3 n^2 == G (M + m)  (Kepler III with both masses)', call(mp, 'orbital_motion2semi_a', [x, M, m]) ** 3 * x * x,
       X.atom('const_G', 'pos') * (M + m), mp.where(need_func(mp, 'orbital_motion2semi_a')))
    eq('R17.1', 'pyx: cf_orbital_motion2semi_a(n)^3 n^2 == G (M + m)', call(mx, 'cf_orbital_motion2semi_a', [x, M, m]) ** 3 * x * x,
       X.lift(Gx) * (M + m), mx.where(need_func(mx, 'cf_orbital_motion2semi_a')))
    pi = X.atom('pi', 'pos')
    eq('R17.1', 'py: rads2days(w) == 2 pi / w / 86400', call(mp, 'rads2days', [x]), 2 * pi / x / 86400, mp.where(need_func(mp, 'rads2days')))

    # ---------------- R17.3 ownership
    mo = repo.by_path('TidalPy/structures/orbit/base.py')
    cls = need_class(mo, 'OrbitBase')
    ms = methods(cls)
    FIELDS = ('_semi_major_axes', '_orbital_frequencies', '_orbital_periods', '_eccentricities')
    nstores = 0; offenders = []
    for dotted in repo.all_modules():
        try:
            mod = repo.module(dotted)
        except AnalysisError:
            continue
        if mod is None: continue
        for node in ast.walk(mod.tree):
            targets = []
            if isinstance(node, ast.Assign): targets = node.targets
            elif isinstance(node, (ast.AugAssign, ast.AnnAssign)): targets = [node.target]
            elif isinstance(node, ast.Delete): targets = node.targets
            elif isinstance(node, ast.Call) and isinstance(node.func, ast.Attribute) and node.func.attr in ('append', 'extend', 'insert', 'pop', 'clear', 'remove', '__setitem__'):
                targets = [node.func.value]
            for t in targets:
                base = t
                while isinstance(base, ast.Subscript): base = base.value
                if isinstance(base, ast.Attribute) and base.attr in FIELDS:
                    nstores += 1
                    inside = mod is mo and any(node in list(ast.walk(fn_)) for fn_ in ms.values())
                    if not inside:
                        offenders.append(f'{mod.where(node)}: {ast.unparse(t)[:60]}')
    chk.ob('R17.3', f'all {nstores} stores into the Kepler/eccentricity lists are inside OrbitBase methods', not offenders and nstores >= 12, '; '.join(offenders[:4]) or f'only {nstores} stores found',
           mo.rel(), method='who-may-write lint over all modules')
    # storage_list loop in add_tidal_world appends to all four lists together
    for prop in ('eccentricities', 'semi_major_axes', 'orbital_frequencies', 'orbital_periods'):
        setters = [s for s in cls.body if isinstance(s, ast.FunctionDef) and s.name == prop and any('setter' in ast.unparse(dd) for dd in s.decorator_list)]
        ok = bool(setters) and all(any(isinstance(n_, ast.Raise) for n_ in ast.walk(s)) and not any(isinstance(n_, ast.Assign) for n_ in ast.walk(s)) for s in setters)
        chk.ob('R17.3', f'OrbitBase.{prop} property setter raises and stores nothing', ok, 'setter missing or stores', mo.where(setters[0]) if setters else mo.rel(), method='AST')

    # ---------------- R17.4 co-update by interpretation
    Mh = X.atom('M_tidal_host', 'pos'); Ms = X.atom('M_star', 'pos'); Mw = [X.atom('M_world0', 'pos'), X.atom('M_world1', 'pos'), X.atom('M_world2', 'pos')]
    Gc = X.atom('const_G', 'pos')

    def glob_hook(itp, mod, nm):
        if nm == 'log': return Opaque('log')
        return None

    def call_hook(itp, f, args, kwargs, e, fr):
        if isinstance(f, FuncRef) and f.node.name in ('orbit_changed', 'dissipation_changed'):
            return None
        return NotImplemented

    def branch_hook(itp, st, v, fr):
        # isinstance(x, all_world_types): true exactly for the world objects of the graph
        t = st.test if isinstance(st, ast.If) else None
        if isinstance(t, ast.Call) and isinstance(t.func, ast.Name) and t.func.id == 'isinstance' and len(t.args) == 2 and isinstance(t.args[0], ast.Name):
            return isinstance(fr.vars.get(t.args[0].id), Obj)
        return None
    it2 = Interp(repo, hooks={'global': glob_hook, 'call': call_hook, 'branch': branch_hook}, max_depth=12)

    def fresh():
        """star + tidal host (slot 0: its heliocentric orbit) + two moons (slots 1, 2); moon 1 is the host's tide raiser"""
        notify = {'orbit_spin_changed': Opaque('world.orbit_spin_changed'), 'set_spin_frequency': Opaque('world.set_spin_frequency')}   # world-side notifications: C13's business
        host = Obj(name='host', attrs={'mass': Mh, 'force_spin_sync': False, 'name': 'Host', **notify})
        worlds = [host] + [Obj(name=f'world{i}', attrs={'mass': Mw[i], 'force_spin_sync': False, 'name': f'Moon{i}', **notify}) for i in (1, 2)]
        o = Obj(cls=('class', mo, cls), name='orbit', attrs={
            '_semi_major_axes': [X.atom(f'old_a{i}', 'pos') for i in range(3)], '_orbital_frequencies': [X.atom(f'old_n{i}', 'pos') for i in range(3)],
            '_orbital_periods': [X.atom(f'old_P{i}', 'pos') for i in range(3)], '_eccentricities': [X.atom(f'old_e{i}', 'pos') for i in range(3)],
            '_tidal_objects': worlds, '_tidal_host': host, '_star': Obj(name='star', attrs={'mass': Ms, 'name': 'Star'}),
            '_host_tide_raiser': worlds[1], '_star_host': False,
            '_all_tidal_world_orbit_index_by_name': {'Host': 0, 'Moon1': 1, 'Moon2': 2},
            '_all_tidal_world_orbit_index_by_instance': {worlds[0]: 0, worlds[1]: 1, worlds[2]: 2}})
        o.attrs['_all_objects'] = [o.attrs['_star']] + worlds
        return o, worlds
    val = X.atom('new_value', 'pos')
    masses = [Mh, Mw[1], Mw[2]]
    from ..core.interp import PathExplorer, RaiseSignal

    def paths(scen, itp=None):
        """every way through the tests the mutators make on the values they are given: [(path label, 'returned' | 'raised: ...', what scen returned)]"""
        itp = itp or it2

        def one(fork):
            itp.hooks['fork'] = fork
            try:
                return ('returned', scen())
            except RaiseSignal as r_:
                return ('raised: ' + str(r_.text)[:60], None)
            finally:
                itp.hooks.pop('fork', None)
        res = [(PathExplorer.label(tr_), how, st) for tr_, (how, st) in PathExplorer(max_paths=128).run(one)]
        if not any(how == 'returned' for _l, how, _s in res):
            raise AnalysisError('an orbit update scenario raises on every path: ' + '; '.join(h_ for _l, h_, _s in res[:2]))
        return [(l_, st) for l_, how, st in res if how == 'returned']

    def kepler_ok(o, i, stellar):
        a_ = o.attrs['_semi_major_axes'][i]; n_ = o.attrs['_orbital_frequencies'][i]; P_ = o.attrs['_orbital_periods'][i]
        if a_ is None and n_ is None and P_ is None:
            return True, 'all cleared'
        if not all(isinstance(v, X.Node) for v in (a_, n_, P_)):
            return False, f'mixed cleared/stored: a={a_!r} n={n_!r} P={P_!r}'
        host = Ms if stellar else Mh
        ok1 = d.equal(a_ ** 3 * n_ * n_, Gc * (host + masses[i]))
        ok2 = d.equal(P_ * n_ * 86400, 2 * pi)
        return ok1 and ok2, ('' if ok1 else f'slot {i}: a^3 n^2 != G (M_host + M_world); ') + ('' if ok2 else f'slot {i}: P != 2 pi / n / 86400')
    cases = [('set_semi_major_axis', {}), ('set_orbital_frequency', {}), ('set_orbital_period', {}),
             ('set_state', {'semi_major_axis': True}), ('set_state', {'orbital_frequency': True}), ('set_state', {'orbital_period': True}),
             ('set_state', {'eccentricity': True})]
    # (how the world is named, set_stellar_orbit) -> slot that must be updated.  The tidal host's own slot (0) holds its heliocentric orbit and is
    # addressed only with set_stellar_orbit=True; without it the host's signature means the orbit of its tide raiser (slot 1).
    sigs = [('int 2', lambda w: 2, False, 2), ('int 2', lambda w: 2, True, 2), ('moon instance', lambda w: w[2], False, 2), ('moon name', lambda w: 'Moon2', False, 2),
            ('int 0 (tidal host)', lambda w: 0, True, 0), ('host instance', lambda w: w[0], True, 0), ('host name', lambda w: 'Host', True, 0),
            ('int 0 (tidal host)', lambda w: 0, False, 1), ('host instance', lambda w: w[0], False, 1)]
    KEP = ('_semi_major_axes', '_orbital_frequencies', '_orbital_periods')
    for meth, kw in cases:
        if meth not in ms:
            raise AnalysisError(f'OrbitBase.{meth} vanished')
        for signame, mk, stellar, slot in sigs:
            for by_world in ((False, True) if meth == 'set_state' else (False,)):
                def scen():
                    o, worlds = fresh()
                    sig = mk(worlds)
                    if meth == 'set_state':
                        kws = {k: val for k in kw}; kws['set_stellar_orbit'] = stellar; kws['set_by_world'] = by_world
                        it2.call(mo, ms[meth], [sig], kws, self_obj=o)
                    else:
                        it2.call(mo, ms[meth], [sig, val], {'set_stellar_orbit': stellar}, self_obj=o)
                    return o
                which = list(kw)[0] if kw else meth[4:]
                stored = {'semi_major_axis': '_semi_major_axes', 'orbital_frequency': '_orbital_frequencies', 'orbital_period': '_orbital_periods', 'eccentricity': '_eccentricities'}[which]
                bad = []
                for lab_, o in paths(scen):
                    ok, why = kepler_ok(o, slot, stellar)
                    # the quantity provided must be stored as given, in the slot the signature designates
                    given_ok = o.attrs[stored][slot] is val
                    if which == 'eccentricity':
                        # Kepler triple untouched
                        untouched = all(o.attrs[k][slot].op == 'atom' and o.attrs[k][slot].val[0].startswith('old_') for k in KEP)
                        ok, why = untouched, '' if untouched else 'eccentricity-only change modified the Kepler triple'
                    # every other slot untouched
                    touched = [f'{k}[{j}]' for k in KEP + ('_eccentricities',) for j in range(3) if j != slot
                               and not (isinstance(o.attrs[k][j], X.Node) and o.attrs[k][j].op == 'atom' and o.attrs[k][j].val[0].startswith('old_'))]
                    if not (ok and given_ok and not touched):
                        bad.append(why + ('' if given_ok else f' given value not stored in slot {slot};') + (f' other slots modified: {touched}' if touched else '') + lab_)
                inst = f'OrbitBase.{meth}({which}, world given as {signame}, stellar={stellar}' + (f', set_by_world={by_world}' if meth == 'set_state' else '') + ')'
                chk.ob('R17.4', inst + f': slot {slot} holds a Kepler-consistent (a, n, P) with the given value, all other slots untouched', not bad,
                       '; '.join(bad[:2]), mo.where(ms[meth]),
                       key=f'R17.4|{inst}', method='interpreted mutator (real world_signature_to_index; every outcome of its tests on the value) + GF(p^2) PIT')
    # R17.11 array-valued quantities are objects: the same array may be handed to two worlds (one grid of periods for two moons), and a value read from the orbit may be handed
    # back for another world.  After any later update of ONE world, the other world's stored (a, n, P) must still be Kepler-consistent and the arrays the caller handed in must
    # still hold what the caller put there (an update that refreshes a stored array in place writes into whatever object sits in the slot).
    from ..core.interp import ArrBox
    def unb(v): return getattr(v, 'v', v)
    first = {'semi_major_axis': ('set_semi_major_axis', '_semi_major_axes'), 'orbital_frequency': ('set_orbital_frequency', '_orbital_frequencies'), 'orbital_period': ('set_orbital_period', '_orbital_periods')}
    for q1, (m1, store1) in first.items():
        for q2, (m2, _s2) in first.items():
            if q2 == q1: continue
            for share in ('one array handed to both moons', 'the value stored for moon 1 read back and handed to moon 2'):
                shared0 = X.atom('shared_grid', 'pos'); later = X.atom('later_value', 'pos')
                def scen(q1=q1, m1=m1, m2=m2, store1=store1, share=share, shared0=shared0, later=later):
                    old_mode = getattr(it2, 'array_mode', False); it2.array_mode = True
                    try:
                        o, worlds = fresh()
                        for k_ in KEP: o.attrs[k_] = [None, None, None]
                        cell = ArrBox(shared0)
                        it2.call(mo, ms[m1], [1, cell], {}, self_obj=o)
                        second = cell if share.startswith('one array') else o.attrs[store1][1]
                        it2.call(mo, ms[m1], [2, second], {}, self_obj=o)
                        it2.call(mo, ms[m2], [1, ArrBox(later)], {}, self_obj=o)          # moon 1 migrates, given through another quantity
                        return o, cell
                    finally:
                        it2.array_mode = old_mode
                bad = []
                for lab_, (o, cell) in paths(scen):
                    for i_ in (1, 2):
                        a_, n_, P_ = (unb(o.attrs[k_][i_]) for k_ in KEP)
                        if not all(isinstance(v_, X.Node) for v_ in (a_, n_, P_)):
                            bad.append(f'moon {i_}: incomplete triple' + lab_); continue
                        if not (d.equal(a_ ** 3 * n_ * n_, Gc * (Mh + masses[i_])) and d.equal(P_ * n_ * 86400, 2 * pi)):
                            bad.append(f'moon {i_}: stored (a, n, P) no longer satisfy Kepler III / P = 2 pi / n' + lab_)
                    if unb(cell) is not shared0 and not d.equal(unb(cell), shared0):
                        bad.append('the array the caller handed in was overwritten' + lab_)
                    if not d.equal(unb(o.attrs[store1][2]), shared0):
                        bad.append(f'moon 2 lost the {q1} it was given' + lab_)
                chk.ob('R17.11', f'{share} as {q1}, then moon 1 updated through its {q2}: both moons keep Kepler-consistent triples, moon 2 keeps what it was given, the caller\'s array is intact', not bad,
                       '; '.join(sorted(set(bad))[:3]), mo.where(ms[m2]), key=f'R17.11|{q1}|{q2}|{share}', method='interpreted mutators with arrays as mutable cells (shared between slots) + GF(p^2) PIT')
    chk.floor('R17.11', 12)
    # "... for the current masses": a world's mass changes (set_geometry / reinit) and the orbit is given the same value again -- the very same object, as a driver
    # re-sending its state does.  The stored triple must follow the new mass.
    for meth, kw in cases:
        which = list(kw)[0] if kw else meth[4:]
        if which == 'eccentricity':
            continue
        for who, slot, sig_mk in (('the moon', 2, lambda w: 2), ('the host', 2, lambda w: w[2])):
            new_mass = X.atom('mass_after_change', 'pos')

            def scen():
                o, worlds = fresh()
                sig = sig_mk(worlds)

                def send():
                    if meth == 'set_state':
                        it2.call(mo, ms[meth], [sig], {which: val, 'set_stellar_orbit': False}, self_obj=o)
                    else:
                        it2.call(mo, ms[meth], [sig, val], {'set_stellar_orbit': False}, self_obj=o)
                send()
                tgt = worlds[2] if who == 'the moon' else worlds[0]
                tgt.attrs['mass'] = new_mass
                send()
                return o
            host_m = new_mass if who == 'the host' else Mh
            world_m = new_mass if who == 'the moon' else masses[slot]
            ok = True
            for lab_, o in paths(scen):
                a_ = o.attrs['_semi_major_axes'][slot]; n_ = o.attrs['_orbital_frequencies'][slot]; P_ = o.attrs['_orbital_periods'][slot]
                ok = ok and all(isinstance(v, X.Node) for v in (a_, n_, P_)) and d.equal(a_ ** 3 * n_ * n_, Gc * (host_m + world_m)) and d.equal(P_ * n_ * 86400, 2 * pi)
            inst = f'OrbitBase.{meth}({which}) ; mass of {who} changes ; the same {which} is sent again'
            chk.ob('R17.4', inst + ': the stored (a, n, P) satisfy Kepler\'s third law for the masses as they are now', ok,
                   'the triple still belongs to the old mass (the update was skipped because the value looked unchanged)', mo.where(ms[meth]),
                   key=f'R17.4|{inst}', method='interpreted mutator history + GF(p^2) PIT')
    # sequences of updates ("for all sequences of orbit updates given as period, frequency or semi-major axis"): two and three updates through different quantities and
    # entry points, for the same moon and for two different moons, starting from a populated orbit and from one whose state was cleared; afterwards every slot that
    # was addressed holds a Kepler-consistent triple with the LAST value given for it, and the other moon's slot is as it was left
    kep_cases = [c_ for c_ in cases if (list(c_[1])[0] if c_[1] else c_[0][4:]) != 'eccentricity']
    import itertools as _it
    seqs2 = list(_it.product(range(len(kep_cases)), repeat=2))
    if chk.tier == 'quick':
        seqs2 = [q_ for q_ in seqs2 if (q_[0] * 7 + q_[1] * 3) % 5 == 0]
    nseq_ = 0
    for start in ('populated', 'cleared'):
        for idxs in seqs2:
            for slots in ((2, 2), (1, 2)):
                vals_ = [X.atom(f'value_step{step + 1}', 'pos') for step in range(len(idxs))]

                def scen():
                    o, worlds = fresh()
                    if start == 'cleared' and 'clear_state' in ms:
                        it2.call(mo, ms['clear_state'], [], {}, self_obj=o)
                    for step, (ci, slot_) in enumerate(zip(idxs, slots)):
                        meth, kw = kep_cases[ci]
                        which = list(kw)[0] if kw else meth[4:]
                        if meth == 'set_state':
                            it2.call(mo, ms[meth], [slot_], {which: vals_[step], 'set_stellar_orbit': False}, self_obj=o)
                        else:
                            it2.call(mo, ms[meth], [slot_, vals_[step]], {'set_stellar_orbit': False}, self_obj=o)
                    return o
                last = {}
                for step, (ci, slot_) in enumerate(zip(idxs, slots)):
                    meth, kw = kep_cases[ci]
                    last[slot_] = (list(kw)[0] if kw else meth[4:], vals_[step])
                bad = []
                for lab_, o in paths(scen):
                    for slot_, (which, v_) in last.items():
                        ok, why = kepler_ok(o, slot_, False)
                        stored = {'semi_major_axis': '_semi_major_axes', 'orbital_frequency': '_orbital_frequencies', 'orbital_period': '_orbital_periods'}[which]
                        if not ok: bad.append(why + lab_)
                        elif o.attrs[stored][slot_] is not v_: bad.append(f'slot {slot_}: the last {which} given is not what is stored' + lab_)
                nseq_ += 1
                lab_ = ' ; '.join(f'{kep_cases[ci][0]}({(list(kep_cases[ci][1])[0] if kep_cases[ci][1] else kep_cases[ci][0][4:])}) for moon {sl_}' for ci, sl_ in zip(idxs, slots))
                chk.ob('R17.4', f'orbit {start}; {lab_}: every addressed slot holds a Kepler-consistent (a, n, P) with the last value given', not bad, '; '.join(bad[:2]), mo.where(ms[kep_cases[idxs[-1]][0]]),
                       key=f'R17.4|seq|{start}|{idxs}|{slots}', method='interpreted mutator sequence + GF(p^2) PIT')
    chk.note_analysed('orbit update sequences', nseq_)
    # R17.9 "an orbit object always reports ...": an update that is refused (any `raise` the mutator can reach: signature checks, the unit sanity checks made under
    # TidalPy.extensive_checks, ...) leaves the addressed slot either as it was or holding a complete Kepler-consistent triple -- never part of the new state.
    # Every outcome of the tests the mutator makes on the value is explored, with the package switch off and on.
    nexc = nraise = 0
    for ext in (False, True):
        def glob_hook2(itp, mod, nm, ext=ext):
            if nm == 'log': return Opaque('log')
            if nm == 'extensive_checks': return ext
            return None
        it3 = Interp(repo, hooks={'global': glob_hook2, 'call': call_hook, 'branch': branch_hook}, max_depth=12)
        for meth, kw in kep_cases:
            which = list(kw)[0] if kw else meth[4:]
            for signame, mk, stellar, slot in (sigs[0], sigs[4], sigs[7]):
                holder = {}

                def one(fork):
                    o, worlds = fresh(); holder['o'] = o
                    it3.hooks['fork'] = fork
                    try:
                        if meth == 'set_state':
                            it3.call(mo, ms[meth], [mk(worlds)], {which: val, 'set_stellar_orbit': stellar}, self_obj=o)
                        else:
                            it3.call(mo, ms[meth], [mk(worlds), val], {'set_stellar_orbit': stellar}, self_obj=o)
                        return ('returned', o)
                    except RaiseSignal as r_:
                        return ('raised: ' + str(r_.text)[:60], o)
                    finally:
                        it3.hooks.pop('fork', None)
                bad = []
                for tr_, (how, o) in PathExplorer(max_paths=64).run(one):
                    nexc += 1
                    if how != 'returned': nraise += 1
                    for j in range(3):
                        trip = [o.attrs[k][j] for k in KEP]
                        old_ = [isinstance(v_, X.Node) and v_.op == 'atom' and v_.val[0].startswith('old_') for v_ in trip]
                        if all(old_):
                            continue
                        ok_, why_ = (False, f'slot {j} holds part of the new state next to part of the old one') if any(old_) else kepler_ok(o, j, stellar and j == 0)
                        if not ok_:
                            bad.append(f'{how}{PathExplorer.label(tr_)}: {why_}')
                inst = f'OrbitBase.{meth}({which}, world given as {signame}, stellar={stellar}) with extensive_checks={ext}'
                chk.ob('R17.9', inst + ': on every way out (return or raise) each slot is untouched or holds a complete Kepler-consistent (a, n, P)', not bad, '; '.join(bad[:2]), mo.where(ms[meth]),
                       key=f'R17.9|{meth}|{which}|{signame}|{stellar}|{ext}', method='interpreted mutator, all outcomes of its tests on the value (raising paths included) + GF(p^2) PIT')
    chk.note_analysed('mutator exits examined for atomicity (returning and raising)', nexc)
    chk.floor('R17.9', 36)
    # readers and writers agree on the slot: what a setter stored for (signature, stellar flag) is what the getter of the same (signature, flag) reports,
    # and the three getters of one (signature, flag) read one and the same slot
    getters = {'get_semi_major_axis': '_semi_major_axes', 'get_orbital_frequency': '_orbital_frequencies', 'get_orbital_period': '_orbital_periods', 'get_eccentricity': '_eccentricities'}
    for gname, field in getters.items():
        if gname not in ms:
            raise AnalysisError(f'OrbitBase.{gname} vanished')
        for signame, mk, stellar, slot in sigs:
            o, worlds = fresh()
            got = it2.call(mo, ms[gname], [mk(worlds)], {'for_stellar_orbit': stellar}, self_obj=o)
            ok = got is o.attrs[field][slot]
            chk.ob('R17.4', f'OrbitBase.{gname}(world given as {signame}, for_stellar_orbit={stellar}) reads {field}[{slot}] (the slot the setters write for that signature)', ok,
                   f'returns {got!r}, expected the entry of slot {slot}', mo.where(ms[gname]), method='interpreted accessor (real world_signature_to_index)')
    # stellar-distance convenience pair: for a non-star host the stellar distance is the host's heliocentric semi-major axis (slot 0)
    if 'set_stellar_distance' in ms and 'get_stellar_distance' in ms:
        for signame, mk in (('int 0 (tidal host)', lambda w: 0), ('host instance', lambda w: w[0]), ('host name', lambda w: 'Host')):
            def scen():
                o, worlds = fresh()
                it2.call(mo, ms['set_stellar_distance'], [mk(worlds), val], {}, self_obj=o)
                got = it2.call(mo, ms['get_stellar_distance'], [mk(worlds)], {}, self_obj=o)
                return o, got
            bad = []; got_ok = True; got = None
            for lab_, (o, got) in paths(scen):
                ok, why = kepler_ok(o, 0, True)
                given_ok = o.attrs['_semi_major_axes'][0] is val
                touched = [f'{k}[{j}]' for k in KEP + ('_eccentricities',) for j in (1, 2)
                           if not (isinstance(o.attrs[k][j], X.Node) and o.attrs[k][j].op == 'atom' and o.attrs[k][j].val[0].startswith('old_'))]
                if not (ok and given_ok and not touched):
                    bad.append(why + ('' if given_ok else ' given distance not stored in slot 0;') + (f' other slots modified: {touched}' if touched else '') + lab_)
                got_ok = got_ok and got is val
            chk.ob('R17.4', f'OrbitBase.set_stellar_distance(world given as {signame}): slot 0 holds a Kepler-consistent heliocentric (a, n, P), moons untouched', not bad,
                   '; '.join(bad[:2]), mo.where(ms['set_stellar_distance']),
                   method='interpreted mutator (real world_signature_to_index) + GF(p^2) PIT')
            chk.ob('R17.4', f'OrbitBase.get_stellar_distance(world given as {signame}) reports the value just set', got_ok, f'returns {got!r}', mo.where(ms['get_stellar_distance']),
                   method='interpreted accessor')
        for signame, mk in (('int 2', lambda w: 2), ('moon instance', lambda w: w[2])):
            o, worlds = fresh()
            got = it2.call(mo, ms['get_stellar_distance'], [mk(worlds)], {}, self_obj=o)
            chk.ob('R17.4', f'OrbitBase.get_stellar_distance(world given as {signame}) is the host\'s heliocentric semi-major axis (slot 0)', got is o.attrs['_semi_major_axes'][0],
                   f'returns {got!r}', mo.where(ms['get_stellar_distance']), method='interpreted accessor')
    # clear_state clears all four together
    if 'clear_state' in ms:
        for kws, lab in (({}, 'clear_all'), ({'clear_all': False, 'clear_specific': 2}, 'clear_specific=world 2')):
            o, worlds = fresh()
            it2.call(mo, ms['clear_state'], [], kws, self_obj=o)
            pat = {tuple(v is None for v in o.attrs[k]) for k in FIELDS}
            # the four lists must be cleared in the same slots (a slot never keeps a period without its frequency); with the real signature resolution the
            # tidal host resolves to its tide raiser's slot, so clear_all leaves the host's heliocentric slot 0 as a whole - consistent, hence not a C17 matter
            ok = len(pat) == 1 and (all(list(pat)[0][1:]) if lab == 'clear_all' else list(pat)[0] == (False, False, True))
            chk.ob('R17.4', f'OrbitBase.clear_state({lab}) clears a, n, P, e of the same worlds together', ok, f'cleared patterns {sorted(pat)}', mo.where(ms['clear_state']),
                   method='interpreted mutator')
    # wrappers pass (host mass, world mass)
    for wname, pyname in (('semi_a2orbital_motion', 'semi_a2orbital_motion'), ('orbital_motion2semi_a', 'orbital_motion2semi_a')):
        o, worlds = fresh()
        for stellar in (False, True):
            r = it2.call(mo, ms[wname], [1, val], {'set_stellar_orbit': stellar}, self_obj=o)
            ref = call(mp, pyname, [val, Ms if stellar else Mh, Mw[1]])
            eq('R17.4', f'OrbitBase.{wname}(stellar={stellar}) == conversions.{pyname}(value, host mass, world mass)', r, ref, mo.where(ms[wname]))
    from .common import inplace_lint
    inplace_lint(chk, repo, 'R17.5', ['TidalPy/utilities/conversions/conversions.py'])
    chk.floor('R17.5', 1); chk.floor('R17.7', 16)
    twin.finish(floor=6)
    chk.floor('R17.1', 26); chk.floor('R17.2', 17); chk.floor('R17.3', 5); chk.floor('R17.4', 134)
    from .common import precision_lint
    precision_lint(chk, repo, 'R17.8', ['TidalPy/utilities/conversions/*.pyx'], floor_funcs=3)
    chk.assume('all inputs positive; cube and square roots are the real positive roots')
