#!/usr/bin/env python3
"""Self-test of the checkers: apply each mutant / refactor twin of selftest/mutants.py to a scratch copy of the TidalPy sources and run the
property's check on it.  A mutant must be reported (exit 1, VIOLATION naming the expected rule); a twin must stay silent (exit 0).

usage:  python3-vt selftest/run.py [--jobs 16] [--only ID_SUBSTRING] [--tier quick]
Scratch copies live under a mkdtemp() outside /repo and /verif and are removed as soon as the check has run.
"""
import argparse, json, os, shutil, subprocess, sys, tempfile, time
from concurrent.futures import ThreadPoolExecutor

HERE = os.path.dirname(os.path.abspath(__file__))
VERIF = os.path.dirname(HERE)
sys.path.insert(0, HERE)
from mutants import M

REPO = os.environ.get('VERIF_REPO', '/repo')


ALL_PROPS = [f'C{i:02d}' for i in range(1, 21)]


def copy_sources(dst):
    src = os.path.join(REPO, 'TidalPy')
    for dp, dn, fn in os.walk(src):
        dn[:] = [d for d in dn if d != '__pycache__']
        rel = os.path.relpath(dp, REPO)
        os.makedirs(os.path.join(dst, rel), exist_ok=True)
        for f in fn:
            if f.endswith(('.py', '.pyx', '.pxd', '.toml', '.zip', '.json')):
                shutil.copy2(os.path.join(dp, f), os.path.join(dst, rel, f))


def run_one(mu, tier):
    tmp = tempfile.mkdtemp(prefix='vsm_')
    try:
        copy_sources(tmp)
        if mu.get('patch'):
            r = subprocess.run(['git', 'apply', '--unsafe-paths', '--exclude=*.md', '--exclude=*.rst', '--exclude=*.txt', '--directory', tmp, mu['patch']], capture_output=True, text=True, cwd=tmp)
            if r.returncode != 0:
                return mu, 'STALE', f'seeded patch does not apply: {r.stderr.strip()[:120]}', 0.0
            return run_check(mu, tier, tmp)
        p = os.path.join(tmp, mu['file'])
        s = open(p).read()
        n = s.count(mu['old'])
        if n == 0:
            return mu, 'STALE', f'pattern not found in {mu["file"]}', 0.0
        if mu['count'] == 'all':
            s2 = s.replace(mu['old'], mu['new'])
        else:
            s2 = s.replace(mu['old'], mu['new'], 1)
        open(p, 'w').write(s2)
        return run_check(mu, tier, tmp)
    finally:
        shutil.rmtree(tmp, ignore_errors=True)


def run_check(mu, tier, tmp):
    if True:
        env = dict(os.environ); env['VERIF_EVIDENCE_DIR'] = os.path.join(tmp, '_evidence')
        t = time.time()
        r = subprocess.run([os.path.join(VERIF, 'check'), mu['prop'], '--tier', tier, '--repo', tmp], capture_output=True, text=True, env=env, timeout=1800)
        dt = time.time() - t
        out = r.stdout
        viol = [l for l in out.splitlines() if l.startswith('  ') and 'rule=' in l]
        if mu['expect'] == 'fire':
            if r.returncode == 1 and viol:
                if mu.get('rule') and not any(mu['rule'] in v for v in viol):
                    return mu, 'WRONG-RULE', viol[0][:200], dt
                return mu, 'OK', viol[0].strip()[:160], dt
            if r.returncode == 2:
                return mu, 'ANALYSIS-ERROR', out.strip().splitlines()[-1][:200], dt
            return mu, 'MISSED', out.strip().splitlines()[-1][:160] if out.strip() else '', dt
        else:
            if r.returncode == 0:
                # a behaviour-preserving change must leave every *other* property's check silent as well (cross-property silence)
                if mu.get('cross'):
                    for other in ALL_PROPS:
                        if other == mu['prop']: continue
                        r2 = subprocess.run([os.path.join(VERIF, 'check'), other, '--tier', tier, '--repo', tmp], capture_output=True, text=True, env=env, timeout=1800)
                        if r2.returncode != 0:
                            v2 = [l for l in r2.stdout.splitlines() if (l.startswith('  ') and 'rule=' in l) or 'ANALYSIS-ERROR' in l]
                            return mu, 'FALSE-ALARM' if r2.returncode == 1 else 'ANALYSIS-ERROR', f'[{other}] ' + (v2[0].strip()[:180] if v2 else r2.stdout[-160:]), time.time() - t
                    return mu, 'OK', 'silent (all 20 checks)', time.time() - t
                return mu, 'OK', 'silent', dt
            if r.returncode == 2:
                return mu, 'ANALYSIS-ERROR', out.strip().splitlines()[-1][:200], dt
            return mu, 'FALSE-ALARM', (viol[0][:200] if viol else out[-200:]), dt


def main():
    ap = argparse.ArgumentParser()
    ap.add_argument('--jobs', type=int, default=16)
    ap.add_argument('--only', default=None)
    ap.add_argument('--tier', default='quick')
    ap.add_argument('--json', default=os.path.join(HERE, 'last_result.json'))
    ap.add_argument('--no-global', action='store_true')
    ap.add_argument('--cross', action='store_true', help='run all 20 checks on every refactor twin (cross-property silence)')
    a = ap.parse_args()
    # the confirmed sub-agent changes kept under /verif/seeded are mutants too: each must be reported by its property's check
    seeded = os.path.join(VERIF, 'seeded')
    for sid in sorted(os.listdir(seeded)) if os.path.isdir(seeded) else []:
        pf = os.path.join(seeded, sid, 'patch.diff')
        if os.path.isfile(pf):
            M.append(dict(id=f'seed-{sid}', prop=sid[:3], file='', old='', new='', count='first', expect='fire', rule=None, patch=pf))
    # changes written by independent sub-agents that could not be confirmed dynamically (.pyx sources cannot be compiled here): selftest/independent/<Cxx>/patch_k.diff
    # behaviour-preserving refactorings written by independent sub-agents (must stay silent): selftest/refactors/<Cxx>/patch_k.diff
    for sub, expect in (('independent', 'fire'), ('refactors', 'silent')):
        base = os.path.join(HERE, sub)
        for sid in sorted(os.listdir(base)) if os.path.isdir(base) else []:
            for fn in sorted(os.listdir(os.path.join(base, sid))):
                if fn.endswith('.diff'):
                    M.append(dict(id=f'{"indep" if expect == "fire" else "refac"}-{sid}-{fn[:-5]}', prop=sid[:3], file='', old='', new='', count='first', expect=expect, rule=None,
                                  patch=os.path.join(base, sid, fn)))
    todo = [mu for mu in M if not a.only or a.only in mu['id'] or a.only == mu['prop']]
    if a.cross:
        for mu in todo:
            if mu['expect'] == 'silent' and mu.get('patch'): mu['cross'] = True
    t0 = time.time()
    with ThreadPoolExecutor(a.jobs) as ex:
        res = list(ex.map(lambda mu: run_one(mu, a.tier), todo))
    bad = 0
    rows = []
    for mu, status, detail, dt in res:
        rows.append({'id': mu['id'], 'property': mu['prop'], 'expect': mu['expect'], 'status': status, 'detail': detail, 'seconds': round(dt, 1)})
        if status != 'OK':
            bad += 1
        print(f'{status:15s} {mu["id"]:28s} {mu["prop"]} {dt:5.1f}s  {detail}')
    n_fire = sum(1 for mu in todo if mu['expect'] == 'fire'); n_twin = len(todo) - n_fire
    print(f'\n{len(todo)} variants ({n_fire} mutants, {n_twin} refactor twins): {len(todo) - bad} as expected, {bad} not, in {time.time() - t0:.0f}s')
    glob = None
    if not a.only and not a.no_global:
        # whole-repository rewrites (ast.unparse of every .py; every plain local renamed): all 20 checks must stay silent
        r = subprocess.run([sys.executable, os.path.join(HERE, 'global_twins.py'), '--mode', 'both', '--jobs', str(min(a.jobs, 10))], capture_output=True, text=True)
        print(r.stdout[-3000:])
        glob = {'exit': r.returncode, 'tail': r.stdout.strip().splitlines()[-1:]}
        if r.returncode:
            bad += 1
    if not a.only:
        with open(a.json, 'w') as f:
            json.dump({'variants': len(todo), 'mutants': n_fire, 'twins': n_twin, 'unexpected': bad, 'global_twins': glob, 'rows': rows}, f, indent=1)
    sys.exit(1 if bad else 0)


if __name__ == '__main__':
    main()
