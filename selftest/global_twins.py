#!/usr/bin/env python3
"""Whole-repository behaviour-preserving rewrites ("global refactor twins"): every check must stay silent on them.

usage: python3-vt selftest/global_twins.py [--mode unparse|rename|both] [--props C01,C02,...] [--jobs N]

  unparse : every TidalPy/**/*.py is re-emitted by ast.unparse (comments gone, layout, quoting, parenthesisation and line numbers all change)
  rename  : in every function of every TidalPy/**/*.py each plain local variable (assigned in the function, not a parameter, not global / nonlocal, not
            captured by a nested scope) gets the suffix `_rn`; then the file is re-emitted by ast.unparse
  algebra : x**2 -> x*x for plain names, numeric constant moved to the right of * and +  (same real-number value; IEEE-identical except x*x)
  branches: `if c: A else: B` -> `if not c: B else: A`
  pyx-comments: comment-only and blank lines removed from every .pyx / .pxd (line numbers of the compiled sources change)
The rewritten tree lives in a scratch `git worktree` under a mkdtemp() and is removed afterwards.  Exit 0 iff every check exits 0 on every rewritten tree.
(.pyx sources are left alone: there is no Cython-emitting back end here; hand-written .pyx twins live in selftest/refactors/.)
"""
import argparse, ast, glob, os, shutil, subprocess, symtable, sys, tempfile
from concurrent.futures import ThreadPoolExecutor

VERIF = os.path.dirname(os.path.dirname(os.path.abspath(__file__)))
REPO = os.environ.get('VERIF_REPO', '/repo')
ALL = [f'C{i:02d}' for i in range(1, 21)]


def local_renames(src):
    """{(function lineno, name)}: names that are safe to rename inside the function starting at that line"""
    out = {}
    try:
        top = symtable.symtable(src, '<m>', 'exec')
    except SyntaxError:
        return out

    def walk(t):
        for c in t.get_children():
            if c.get_type() == 'function' and c.get_name() not in ('lambda', 'genexpr', 'listcomp', 'setcomp', 'dictcomp'):
                captured = set()

                def frees(x):
                    for cc in x.get_children():
                        for s in cc.get_symbols():
                            if s.is_free():
                                captured.add(s.get_name())
                        frees(cc)
                frees(c)
                names = set()
                for s in c.get_symbols():
                    if s.is_local() and s.is_assigned() and not s.is_parameter() and not s.is_global() and not s.is_nonlocal() and not s.is_free() \
                            and not s.is_imported() and not s.is_namespace() and s.get_name() not in captured and not s.get_name().startswith('__'):
                        names.add(s.get_name())
                out[(c.get_lineno(), c.get_name())] = names
            walk(c)
    walk(top)
    return out


class Renamer(ast.NodeTransformer):
    def __init__(self, table):
        self.table = table
        self.stack = []

    def _func(self, node):
        names = self.table.get((node.lineno, node.name), set())
        # `locals()` / `exec` / `eval` users are left alone
        for n in ast.walk(node):
            if isinstance(n, ast.Call) and isinstance(n.func, ast.Name) and n.func.id in ('locals', 'vars', 'exec', 'eval', 'dir'):
                names = set()
        # decorators and defaults are evaluated in the enclosing scope
        node.decorator_list = [self.visit(x) for x in node.decorator_list]
        node.args.defaults = [self.visit(x) for x in node.args.defaults]
        node.args.kw_defaults = [self.visit(x) if x is not None else None for x in node.args.kw_defaults]
        self.stack.append(names)
        node.body = [self.visit(b) for b in node.body]
        self.stack.pop()
        return node
    visit_FunctionDef = _func
    visit_AsyncFunctionDef = _func

    def visit_Lambda(self, node):
        # own scope (names it uses from the function are captured, hence excluded already); its defaults belong to the enclosing scope
        node.args.defaults = [self.visit(x) for x in node.args.defaults]
        node.args.kw_defaults = [self.visit(x) if x is not None else None for x in node.args.kw_defaults]
        return node

    def _comp(self, node):
        # own scope, same argument; only the first iterable is evaluated in the enclosing scope
        node.generators[0].iter = self.visit(node.generators[0].iter)
        return node
    visit_ListComp = visit_SetComp = visit_DictComp = visit_GeneratorExp = _comp

    def visit_ClassDef(self, node):
        self.stack.append(set())
        self.generic_visit(node)
        self.stack.pop()
        return node

    def visit_Name(self, node):
        if self.stack and node.id in self.stack[-1]:
            node.id = node.id + '_rn'
        return node

    def visit_ExceptHandler(self, node):
        if self.stack and node.name and node.name in self.stack[-1]:
            node.name = node.name + '_rn'
        self.generic_visit(node)
        return node


class Algebra(ast.NodeTransformer):
    """x**2 -> x*x for a plain name x; (numeric constant) * e -> e * (numeric constant); (numeric constant) + e -> e + (numeric constant).
    IEEE multiplication and addition commute exactly, x*x differs from x**2 by rounding at most."""
    @staticmethod
    def _num(n):
        return isinstance(n, ast.Constant) and isinstance(n.value, (int, float)) and not isinstance(n.value, bool)

    def visit_BinOp(self, node):
        self.generic_visit(node)
        if isinstance(node.op, ast.Pow) and isinstance(node.left, ast.Name) and self._num(node.right) and node.right.value == 2 and isinstance(node.right.value, int):
            return ast.BinOp(left=ast.Name(id=node.left.id, ctx=ast.Load()), op=ast.Mult(), right=ast.Name(id=node.left.id, ctx=ast.Load()))
        if isinstance(node.op, (ast.Mult, ast.Add)) and self._num(node.left) and not self._num(node.right):
            return ast.BinOp(left=node.right, op=node.op, right=node.left)
        return node


class Branches(ast.NodeTransformer):
    """if c: A else: B  ->  if not c: B else: A   (B not an elif chain)"""
    def visit_If(self, node):
        self.generic_visit(node)
        if node.orelse and not (len(node.orelse) == 1 and isinstance(node.orelse[0], ast.If)) and not (len(node.body) == 1 and isinstance(node.body[0], ast.If)):
            return ast.If(test=ast.UnaryOp(op=ast.Not(), operand=node.test), body=node.orelse, orelse=node.body)
        return node


def rewrite_pyx_comments(tree_dir):
    """every comment-only line and every blank line of every .pyx / .pxd is dropped (all line numbers of the compiled sources change)"""
    n = 0
    for pat in ('TidalPy/**/*.pyx', 'TidalPy/**/*.pxd'):
        for f in glob.glob(os.path.join(tree_dir, pat), recursive=True):
            lines = open(f).read().split('\n')
            out = []
            in_doc = None
            for ln in lines:
                st = ln.strip()
                # keep everything inside triple-quoted strings untouched
                for q in ('"""', "'''"):
                    if in_doc is None and st.count(q) % 2 == 1: in_doc = q; break
                    if in_doc == q and st.count(q) % 2 == 1: in_doc = None; out.append(ln); st = None; break
                if st is None: continue
                if in_doc is not None:
                    out.append(ln); continue
                if st.startswith('#') and not st.startswith('# cython:') and not st.startswith('# distutils:'):
                    continue
                if st == '':
                    continue
                out.append(ln)
            open(f, 'w').write('\n'.join(out) + '\n')
            n += 1
    return n


def rewrite(tree_dir, mode):
    if mode == 'pyx-comments':
        return rewrite_pyx_comments(tree_dir)
    n = 0
    for f in glob.glob(os.path.join(tree_dir, 'TidalPy/**/*.py'), recursive=True):
        src = open(f).read()
        try:
            t = ast.parse(src)
        except SyntaxError:
            continue
        if mode == 'rename':
            t = Renamer(local_renames(src)).visit(t)
            ast.fix_missing_locations(t)
        elif mode == 'algebra':
            t = Algebra().visit(t); ast.fix_missing_locations(t)
        elif mode == 'branches':
            t = Branches().visit(t); ast.fix_missing_locations(t)
        new = ast.unparse(t) + '\n'
        compile(new, f, 'exec')
        open(f, 'w').write(new)
        n += 1
    return n


def run(mode, props, jobs):
    base = tempfile.mkdtemp(prefix='vtwin_')
    wt = os.path.join(base, 'wt')
    bad = []
    try:
        subprocess.run(['git', '-C', REPO, 'worktree', 'add', '--detach', wt, 'HEAD'], check=True, capture_output=True)
        # working-tree state of /repo (uncommitted edits included)
        diff = subprocess.run(['git', '-C', REPO, 'diff', 'HEAD'], capture_output=True, text=True).stdout
        if diff.strip():
            subprocess.run(['git', '-C', wt, 'apply'], input=diff, text=True, check=True)
        n = rewrite(wt, mode)
        print(f'[{mode}] {n} files rewritten')

        def one(p):
            r = subprocess.run([os.path.join(VERIF, 'check'), p, '--tier', 'quick', '--repo', wt], capture_output=True, text=True, cwd=VERIF,
                               env={**os.environ, 'VERIF_EVIDENCE_DIR': os.path.join(base, 'ev'), 'VERIF_NO_SELFTEST': '1'})
            return p, r.returncode, r.stdout + r.stderr
        with ThreadPoolExecutor(jobs) as ex:
            for p, rc, out in ex.map(one, props):
                status = 'silent' if rc == 0 else ('FIRED' if rc == 1 else 'ANALYSIS-ERROR')
                print(f'  {p}: {status}')
                if rc != 0:
                    bad.append((mode, p, rc))
                    for l in out.splitlines():
                        if 'rule=' in l or 'ANALYSIS-ERROR' in l:
                            print('      ' + l.strip()[:260])
    finally:
        subprocess.run(['git', '-C', REPO, 'worktree', 'remove', '--force', wt], capture_output=True)
        shutil.rmtree(base, ignore_errors=True)
        subprocess.run(['git', '-C', REPO, 'worktree', 'prune'], capture_output=True)
    return bad


def main():
    ap = argparse.ArgumentParser()
    ap.add_argument('--mode', default='both')
    ap.add_argument('--props', default=','.join(ALL))
    ap.add_argument('--jobs', type=int, default=8)
    a = ap.parse_args()
    bad = []
    for mode in (('unparse', 'rename', 'algebra', 'branches', 'pyx-comments') if a.mode in ('both', 'all') else (a.mode,)):
        bad += run(mode, a.props.split(','), a.jobs)
    print('global twins:', 'all silent' if not bad else f'{len(bad)} not silent: {bad}')
    sys.exit(0 if not bad else 1)


if __name__ == '__main__':
    main()
