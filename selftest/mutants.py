"""Catalogue of mutants (edits that break a property while the code still parses) and refactor twins (edits that must stay silent).

Each entry: id, prop, file (relative to the repo root), old, new, count ('first' | 'all' | int expected occurrences), expect ('fire' | 'silent'),
rule (substring expected in a VIOLATION detail line, optional).  The runner applies one edit to a scratch copy of TidalPy/ and runs that property's check on it.
"""
T = 'TidalPy/'
M = []


def m(id, prop, file, old, new, count='first', expect='fire', rule=None):
    M.append(dict(id=id, prop=prop, file=T + file, old=old, new=new, count=count, expect=expect, rule=rule))


# ---- C01
m('c01-ode-coeff', 'C01', 'RadialSolver/derivatives/odes.pyx', "                y4 * -3. +\n                y5 * -self.density +\n                dy1 * -lame +", "                y4 * -2. +\n                y5 * -self.density +\n                dy1 * -lame +", rule='R01.1')
m('c01-liquid-static', 'C01', 'RadialSolver/derivatives/odes.pyx', "y5 * 2. * self.lm1 * r_inverse * grav_term", "y5 * self.lm1 * r_inverse * grav_term", count='all', rule='R01.1')
m('c01-love-swap', 'C01', 'RadialSolver/love.pyx', "complex_love_numbers_ptr[1] = y1 * c_surface_gravity", "complex_love_numbers_ptr[1] = y3 * c_surface_gravity", rule='R01.5')
m('c01-build-class', 'C01', 'RadialSolver/derivatives/odes.pyx', "solver = SolidStaticIncompressible(", "solver = SolidStaticCompressible(", rule='R01.3')
m('c01-incomp-only', 'C01', 'RadialSolver/derivatives/odes.pyx', "y1 * (dynamic_term + 12. * self.shear_modulus * r_inverse - 4. * density_gravity)", "y1 * (dynamic_term + 10. * self.shear_modulus * r_inverse - 4. * density_gravity)", rule='R01')
# ---- C02
m('c02-iface-sign', 'C02', 'RadialSolver/interfaces/interfaces.pyx', "upper_layer_y_ptr[1] = -liquid_density * lower_layer_y_ptr[0]", "upper_layer_y_ptr[1] = liquid_density * lower_layer_y_ptr[0]", rule='R02.4')
m('c02-reversed-sign', 'C02', 'RadialSolver/interfaces/reversed.pyx', "constant_vector_ptr[1] = (-gamma_1 / gamma_2) * constant_vector_ptr[0]", "constant_vector_ptr[1] = (gamma_1 / gamma_2) * constant_vector_ptr[0]", rule='R02.4')
m('c02-surface-slot', 'C02', 'RadialSolver/boundaries/boundaries.pyx', "surface_matrix_ptr[1] = uppermost_y_per_solution_ptr[0 * max_num_y + 3]\n        surface_matrix_ptr[2] = uppermost_y_per_solution_ptr[0 * max_num_y + 5]", "surface_matrix_ptr[1] = uppermost_y_per_solution_ptr[0 * max_num_y + 2]\n        surface_matrix_ptr[2] = uppermost_y_per_solution_ptr[0 * max_num_y + 5]", rule='R02.1')
m('c02-loading-bc', 'C02', 'RadialSolver/solver.pyx', "-(2. * degree_l_dbl + 1.) * bulk_density_to_use / 3.", "-(2. * degree_l_dbl + 1.) * bulk_density_to_use / 2.", rule='R02.2')
m('c02-wiring', 'C02', 'RadialSolver/solver.pyx', "layer_above_lower_gravity = gravity_lower", "layer_above_lower_gravity = gravity_upper", rule='R02.5')
m('c02-density-choice', 'C02', 'RadialSolver/interfaces/reversed.pyx', "    elif not layer_above_is_solid:\n        liquid_density_at_interface = layer_above_lower_density", "    elif not layer_above_is_solid:\n        liquid_density_at_interface = density_upper", rule='R02.4')
# ---- C03
m('c03-redim-gravity', 'C03', 'utilities/dimensions/nondimensional.pyx', "gravity_array_ptr[i]   *= (length_conversion / second2_conversion)", "gravity_array_ptr[i]   *= (length_conversion / second_conversion)", rule='R03.1')
m('c03-redim-y6', 'C03', 'utilities/dimensions/nondimensional.pyx', "solver_i * 6 + 5] *= \\\n                (1. / length_conversion)", "solver_i * 6 + 5] *= \\\n                (1. / length_conversion3)", rule='R03.1')
m('c03-ode-units', 'C03', 'RadialSolver/derivatives/odes.pyx', "y4 * (1. / self.shear_modulus)", "y4 * self.shear_modulus", count='all', rule='R03.2')
m('c03-collapse-y3', 'C03', 'RadialSolver/collapse/collapse.pyx', "(1. / (frequency_to_use**2 * layer_radius_ptr[slice_i]))", "(1. / (frequency_to_use * layer_radius_ptr[slice_i]))", rule='R03.2')
m('c03-layout-stride', 'C03', 'utilities/dimensions/nondimensional.pyx', "radial_function_ptr[slice_i * 6 * num_solutions + solver_i * 6 + 1]", "radial_function_ptr[slice_i * 6 + solver_i * 6 * num_solutions + 1]", rule='R03')
# ---- C04
m('c04-kamata-coeff', 'C04', 'RadialSolver/starting/kamata.pyx', "2. * shear_modulus * degree_l_dbl * (degree_l_dbl - 1) * r2_inverse", "2. * shear_modulus * degree_l_dbl * (degree_l_dbl + 1) * r2_inverse", rule='R04.1')
m('c04-phi-series', 'C04', 'RadialSolver/starting/common.pyx', "z4  / (8.    * l_3 * l_5) +", "z4  / (6.    * l_3 * l_5) +", rule='R04.2')
m('c04-driver-args', 'C04', 'RadialSolver/starting/driver.pyx', "cf_kamata_solid_static_compressible(\n                    radius, density, bulk_modulus, shear_modulus,", "cf_kamata_solid_static_compressible(\n                    radius, bulk_modulus, density, shear_modulus,", rule='R04.4')
m('c04-saito', 'C04', 'RadialSolver/starting/saito.pyx', "2. * (degree_l - 1.) * radius**(degree_l - 1.)", "2. * (degree_l + 1.) * radius**(degree_l - 1.)", rule='R04.1')
m('c04-kamata-liquid', 'C04', 'RadialSolver/starting/kamata.pyx', "f      = -dynamic_term / gamma\n    h      = f - (degree_l_dbl + 1.)", "f      = dynamic_term / gamma\n    h      = f - (degree_l_dbl + 1.)", rule='R04.1')
# ---- C05
m('c05-kernel', 'C05', 'radial_solver/sensitivity.py', "(-(4. / 3.) * r * np.real(y1_gradient_conj * y1y3_term) + (1. / 3.) * y1y3_term_abs2)", "(-(4. / 3.) * r * np.real(y1_gradient_conj * y1y3_term) + (2. / 3.) * y1y3_term_abs2)", rule='R05.1')
m('c05-stencil', 'C05', 'radial_solver/sensitivity.py', "drb = (dr1 - dr0) / (dr0 * dr1)", "drb = (dr1 + dr0) / (dr0 * dr1)", count='all', rule='R05')
m('c05-coeff', 'C05', 'tides/multilayer/heating.py', "portion_to_be_upgraded = (7. * eccentricity**2 * orbital_frequency)", "portion_to_be_upgraded = (7. * eccentricity * orbital_frequency)", rule='R05.3')
m('c05-bulk', 'C05', 'radial_solver/sensitivity.py', "2. * r * np.real(y1_gradient_conj * y1y3_term)", "r * np.real(y1_gradient_conj * y1y3_term)", rule='R05.1')
# ---- C06
m('c06-restore-conditional', 'C06', 'RadialSolver/solver.pyx', "    finally:\n        # Redim the input pointers if they were non-dim'd.\n        if nondimensionalize:", "    finally:\n        # Redim the input pointers if they were non-dim'd.\n        if nondimensionalize and not error:", rule='R06.1')
m('c06-buffer', 'C06', 'RadialSolver/solver.pyx', "cdef double complex[18] initial_y", "cdef double complex[12] initial_y", rule='R06.2')
m('c06-accessor', 'C06', 'RadialSolver/solver.pyx', "        \"\"\" Return result array. \"\"\"\n\n        if self.success:", "        \"\"\" Return result array. \"\"\"\n\n        if True:", rule='R06.3')
m('c06-loop', 'C06', 'RadialSolver/collapse/collapse.pyx', "                slice_i += 1\n                slice_i_shifted += 1\n            solution_i += 1", "                slice_i += 1\n            solution_i += 1", rule='R06.4')
m('c06-success-flag', 'C06', 'RadialSolver/solver.pyx', "        solution.success = False\n        solution.message = feedback_str", "        solution.success = True\n        solution.message = feedback_str", rule='R06.3')
# ---- C07
m('c07-maxwell', 'C07', 'rheology/models.pyx', "cdef double complex denom = cf_build_dblcmplx(frequency_abs * maxwell_time, -1.0)", "cdef double complex denom = cf_build_dblcmplx(frequency_abs * maxwell_time, 1.0)", rule='R07.1')
m('c07-andrade-gamma', 'C07', 'rheology/models.pyx', "self.alpha_factorial = tgamma(self.alpha + 1.)", "self.alpha_factorial = tgamma(self.alpha)", rule='R07.1')
m('c07-vectorize-args', 'C07', 'rheology/base.pyx', "output_ptr[i] = self._implementation(frequency_ptr[i], modulus, viscosity)", "output_ptr[i] = self._implementation(frequency_ptr[i], viscosity, modulus)", rule='R07.5')
m('c07-lookup', 'C07', 'rheology/models.pyx', "    elif rheology_name_clean == 'burgers':\n        return Burgers", "    elif rheology_name_clean == 'burgers':\n        return Maxwell", rule='R07.5')
m('c07-legacy-voigt', 'C07', 'rheology/complex_compliance/compliance_models.py', "real_j = voigt_comp / denominator", "real_j = voigt_comp**2 / denominator", rule='R07.2')
m('c07-guard-limit', 'C07', 'rheology/models.pyx', "        elif frequency_abs > MAX_FREQUENCY or isinf(frequency_abs):\n            return cf_build_dblcmplx(modulus, 0.0)\n        if modulus < MIN_MODULUS:\n            return cf_build_dblcmplx(0.0, 0.0)\n\n        cdef double maxwell_time  = viscosity / modulus\n        cdef double complex denom = cf_build_dblcmplx(frequency_abs * maxwell_time, -1.0)", "        elif frequency_abs > MAX_FREQUENCY or isinf(frequency_abs):\n            return cf_build_dblcmplx(0.0, 0.0)\n        if modulus < MIN_MODULUS:\n            return cf_build_dblcmplx(0.0, 0.0)\n\n        cdef double maxwell_time  = viscosity / modulus\n        cdef double complex denom = cf_build_dblcmplx(frequency_abs * maxwell_time, -1.0)", rule='R07.3')
# ---- C08
m('c08-coeff', 'C08', 'tides/eccentricity_funcs/orderl2.py', "            -1: 0.25 * e2,", "            -1: 0.5 * e2,", rule='R08.1')
m('c08-alias', 'C08', 'tides/eccentricity_funcs/orderl2.py', "eccentricity_results_bymode[2][1] = eccentricity_results_bymode[0][-1]", "eccentricity_results_bymode[2][1] = eccentricity_results_bymode[0][1]", rule='R08.1')
m('c08-helper', 'C08', 'tides/modes/mode_calc_helper/eccen_calc_orderl3.py', "3: orderl3.eccentricity_funcs_trunc4(eccentricity)", "3: orderl3.eccentricity_funcs_trunc2(eccentricity)", rule='R08.3')
m('c08-registry', 'C08', 'tides/eccentricity_funcs/__init__.py', "            3: eccentricity_funcs_l3_trunc2,", "            3: eccentricity_funcs_l3_trunc4,", rule='R08.3')
m('c08-omitted', 'C08', 'tides/eccentricity_funcs/orderl2.py', "            1 : 12.25 * e2,\n            },\n        1: {", "            },\n        1: {", rule='R08')
# ---- C09
m('c09-power', 'C09', 'tides/inclination_funcs/orderl2.py', "(1, 1) : 0.5625*sin_i_double**2,", "(1, 1) : 0.5625*sin_i_double**4,", rule='R09.1')
m('c09-off', 'C09', 'tides/inclination_funcs/orderl2.py', "(2, 0): 9. * ones_,", "(2, 0): 6. * ones_,", rule='R09.2')
m('c09-coeff', 'C09', 'tides/universal_coeffs.py', "            2: 1. / 60.,", "            2: 1. / 30.,", rule='R09.3')
m('c09-registry', 'C09', 'tides/inclination_funcs/__init__.py', "    3: calc_inclin_l3,\n    4: calc_inclin_l4,\n    5: calc_inclin_l5,\n    6: calc_inclin_l6,\n    7: calc_inclin_l7\n    }\n\ninclination_functions_off", "    3: calc_inclin_l4,\n    4: calc_inclin_l4,\n    5: calc_inclin_l5,\n    6: calc_inclin_l6,\n    7: calc_inclin_l7\n    }\n\ninclination_functions_off", rule='R09.4')
# ---- C10
m('c10-dudm', 'C10', 'tides/modes/mode_manipulation.py', "dUdM_term = uni_multiplier * n_coeff * mode_sign", "dUdM_term = uni_multiplier * m * mode_sign", rule='R10.1')
m('c10-heating', 'C10', 'tides/modes/mode_manipulation.py', "heating_term = uni_multiplier * mode_frequency", "heating_term = uni_multiplier * mode", rule='R10.1')
m('c10-unicoeff', 'C10', 'tides/modes/mode_manipulation.py', "universal_coeff_by_m[m] / 1.5", "universal_coeff_by_m[m] / 1.0", rule='R10')
m('c10-collapse', 'C10', 'tides/modes/mode_manipulation.py', "dUdw_terms.append(dUdw_term * neg_imk_potential)", "dUdw_terms.append(dUdw_term * neg_imk)", rule='R10.2')
m('c10-suscept', 'C10', 'tides/dissipation.py', "target_radius**5 / semi_major_axis**6", "target_radius**5 / semi_major_axis**5", rule='R10.6')
m('c10-sig', 'C10', 'tides/modes/mode_manipulation.py', "                    else:\n                        n_sig = abs(n_coeff)", "                    else:\n                        n_sig = 1", rule='R10')
# ---- C11
m('c11-dadt', 'C11', 'dynamics/single_dissipation.py', "da_dt = (2. / (orbital_motion * semi_major_axis)) * dR_dM", "da_dt = (1. / (orbital_motion * semi_major_axis)) * dR_dM", count='all', rule='R11.1')
m('c11-dual-mass', 'C11', 'dynamics/dual_dissipation.py', "dR_dM_2 = -1. * beta_invr * mass_1 * dU_dM_2", "dR_dM_2 = -1. * beta_invr * mass_2 * dU_dM_2", count='all', rule='R11')
m('c11-revert-mask', 'C11', 'dynamics/single_dissipation.py', "(e_term1 / safe_denom)", "(e_term1 / denom)", count='all', rule='R11.4')
m('c11-callsite', 'C11', 'toolbox/quick_tides.py', "            target_mass, dUdM, dUdw, host_mass\n", "            host_mass, dUdM, dUdw, target_mass\n", rule='R11.3')
m('c11-spin', 'C11', 'dynamics/single_dissipation.py', "dspin_dt = (host_mass / moment_of_inertia) * dU_dO", "dspin_dt = (moment_of_inertia / host_mass) * dU_dO", rule='R11.1')
m('c11-sibling', 'C11', 'dynamics/single_dissipation.py', "    dR_dw_1 = -1. * beta_invr * mass_2 * dU_dw_1\n\n    da_dt", "    dR_dw_1 = -1. * beta_invr * mass_1 * dU_dw_1\n\n    da_dt", rule='R11.2')
# ---- C12
m('c12-love', 'C12', 'tides/love1d.py', "cmplx_love = (3. / (2. * (order_l - 1))) * (1. / (1. + (eff_rigidity_general / rheology_factor)))", "cmplx_love = (3. / (2. * order_l - 1)) * (1. / (1. + (eff_rigidity_general / rheology_factor)))", rule='R12.1')
m('c12-wrapper', 'C12', 'tides/methods/base.py', "complex_love_number = complex_love_general(\n            complex_compliance, shear_modulus, effective_rigidity,", "complex_love_number = complex_love_general(\n            shear_modulus, complex_compliance, effective_rigidity,", expect='silent')   # J*mu is symmetric in its two factors: behaviour unchanged
m('c12-wrapper2', 'C12', 'tides/methods/base.py', "complex_love_number = complex_love_general(\n            complex_compliance, shear_modulus, effective_rigidity,", "complex_love_number = complex_love_general(\n            complex_compliance, effective_rigidity, shear_modulus,", rule='R12.3')
m('c12-revert', 'C12', 'tides/love1d.py', "((2. * order_l**2 + 4. * order_l + 3.) / order_l)", "(2. * order_l**2 + 4. * order_l + 3. / order_l)", rule='R12.1')
m('c12-static', 'C12', 'tides/love1d.py', "static_love_ = (3. / 2.) * (1. / (1. + eff_rigidity))", "static_love_ = (3. / 2.) * (1. / (1. - eff_rigidity))", rule='R12.2')
# ---- C13
m('c13-revert-terms', 'C13', 'tides/methods/base.py', "if spin_freq_changed or orbital_freq_changed or self._need_to_collapse_modes:", "if spin_freq_changed or orbital_freq_changed:", rule='R13')
m('c13-revert-love', 'C13', 'tides/methods/global_approx.py', "        if self.unique_tidal_frequencies is not None:\n            self._update_complex_love()\n\n        self.collapse_modes()", "        self.collapse_modes()", rule='R13.3')
m('c13-revert-lambda', 'C13', 'tides/methods/layered.py', "lambda layer=layer: layer.radius", "lambda: layer.radius", rule='R13.5')
m('c13-flag-plumbing', 'C13', 'structures/world_types/tidal.py', "eccentricity_change=eccentricity_changed,", "eccentricity_change=obliquity_changed,", rule='R13')
m('c13-setter-flag', 'C13', 'structures/world_types/basic.py', "            self.orbit_spin_changed(obliquity_changed=True)", "            self.orbit_spin_changed(spin_freq_changed=True)", rule='R13')
m('c13-suscept', 'C13', 'tides/methods/base.py', "                self.tidal_host.mass, world_radius,\n                semi_major_axis\n                )\n\n        # Check if we need to calculate new eccentricity results", "                self.tidal_host.mass, world_radius,\n                world_radius\n                )\n\n        # Check if we need to calculate new eccentricity results", rule='R13.6')
# ---- C14
m('c14-legendre', 'C14', 'tides/potential/synchronous_low_e.py', "dp_22_dtheta = 6. * np.cos(colatitude) * np.sin(colatitude)", "dp_22_dtheta = 3. * np.cos(colatitude) * np.sin(colatitude)", rule='R14.1')
m('c14-revert-2n', 'C14', 'tides/potential/nsr_modes_med_eccen_gen_obliquity.py', "(-2. + 11. * e2) * cos2_sin2", "(-2. + 11.) * cos2_sin2", rule='R14.4')
m('c14-revert-static', 'C14', 'tides/potential/nsr_med_eccen_med_obliquity.py', "(1. / 2.) * ob2\n", "(1. / 2.) * ob\n", rule='R14.4')
m('c14-dphi2', 'C14', 'tides/potential/nsr_med_eccen_no_obliquity.py', "sine_2long_coeff_dphi2 = 4. * sin_dbl_long", "sine_2long_coeff_dphi2 = 2. * sin_dbl_long", rule='R14')
m('c14-modal-coeff', 'C14', 'tides/potential/nsr_modes_med_eccen_med_obliquity.py', "(17. / 12.) * e2,", "(17. / 6.) * e2,", rule='R14')
# ---- C15
m('c15-strain', 'C15', 'tides/multilayer/stress_strain.py', "strains[3, ri, li, ci, ti] = y4_shear * tp_p_t / 2.", "strains[3, ri, li, ci, ti] = y4_shear * tp_p_t / 3.", rule='R15.2')
m('c15-lame', 'C15', 'tides/multilayer/stress_strain.py', "lame       = bulk - (2. / 3.) * shear", "lame       = bulk - (1. / 3.) * shear", rule='R15')
m('c15-heating-weight', 'C15', 'tides/heating.py', "2. * (stress_imag[3] * strain_real[3] - stress_real[3] * strain_imag[3])", "1. * (stress_imag[3] * strain_real[3] - stress_real[3] * strain_imag[3])", rule='R15.3')
m('c15-index', 'C15', 'tides/multilayer/stress_strain.py', "tp_p_p   = tidal_potential_partial_phi[li, ci, ti]", "tp_p_p   = tidal_potential_partial_phi[ci, li, ti]", rule='R15.4')
m('c15-hooke', 'C15', 'tides/multilayer/stress_strain.py', "if k < 3:", "if k < 2:", rule='R15.1')
# ---- C16
m('c16-revert-loop', 'C16', 'structures/world_builder/world_builder.py', "                    break\n                i += 1\n", "                    break\n", rule='R16.1')
m('c16-gravity', 'C16', 'structures/physical.py', "self._gravity_outer = G * (self.mass + self.mass_below) / self.radius**2", "self._gravity_outer = G * self.mass / self.radius**2", rule='R16.3')
m('c16-contiguity', 'C16', 'structures/layers/helper.py', "                    radius = layer_below_radius + thickness", "                    radius = thickness", rule='R16.3')
m('c16-no-copy', 'C16', 'structures/world_builder/world_builder.py', "scaled_config = clean_world_config(old_world.config, make_copy=True)", "scaled_config = clean_world_config(old_world.config, make_copy=False)", rule='R16')
m('c16-scale', 'C16', 'structures/world_builder/world_builder.py', "scaled_config['layers'][layer_name]['radius'] = radius_scale * old_radius", "scaled_config['layers'][layer_name]['radius'] = radius_scale**2 * old_radius", rule='R16.4')
m('c16-slices', 'C16', 'structures/physical.py', "starting_radius = self.radius_inner + dx_per_slice", "starting_radius = self.radius_inner", rule='R16.3')
# ---- C17
m('c17-const', 'C17', 'utilities/conversions/conversions.py', "days = (2. * np.pi / radians_per_second) / 86400.", "days = (2. * np.pi / radians_per_second) / 86000.", rule='R17')
m('c17-orbit-period', 'C17', 'structures/orbit/base.py', "            new_orbital_period = rads2days(new_orbital_frequency)\n            self.set_orbital_frequency(", "            new_orbital_period = rads2days(semi_major_axis)\n            self.set_orbital_frequency(", rule='R17.4')
m('c17-owner', 'C17', 'structures/world_types/tidal.py', "    def tidal_frequencies_changed(self, collapse_tidal_modes: bool = True):", "    def _poke_orbit(self):\n        self.orbit._eccentricities[0] = 0.\n\n    def tidal_frequencies_changed(self, collapse_tidal_modes: bool = True):", rule='R17.3')
m('c17-kepler-mass', 'C17', 'structures/orbit/base.py', "        orbital_motion = semi_a2orbital_motion(semi_major_axis, host_mass, world_mass)", "        orbital_motion = semi_a2orbital_motion(semi_major_axis, host_mass)", rule='R17.4')
m('c17-pyx-twin', 'C17', 'utilities/conversions/conversions_x.pyx', "return seconds / 3.154e13", "return seconds / 3.156e13", rule='R17')
# ---- C18
m('c18-revert-marker', 'C18', 'utilities/multiprocessing/multiprocessing.py', "            with open(mp_log_path, 'a') as mp_file:\n                mp_file.write(success_text)\n\n        return MultiprocessingOutput", "            with open(mp_log_path, 'a') as mp_file:\n                mp_file.write(success_text)\n            np.savez(os.path.join(this_run_dir, f'mp_results_copy.npz'), **result)\n\n        return MultiprocessingOutput", rule='R18.1')
m('c18-marker-first', 'C18', 'utilities/multiprocessing/multiprocessing.py', "            np.savez(os.path.join(this_run_dir, f'mp_results.npz'), **result)\n", "            pass\n", rule='R18')
m('c18-revert-runnum', 'C18', 'utilities/multiprocessing/multiprocessing.py', "MultiprocessingOutput(case_number=this_run_num, input_index=run_indicies, result=result)", "MultiprocessingOutput(case_number=run_num, input_index=run_indicies, result=result)", rule='R18.3')
m('c18-revert-parser', 'C18', 'utilities/multiprocessing/multiprocessing.py', ".replace('(', '').replace(')', '')", "", rule='R18.4')
m('c18-revert-tuple', 'C18', 'utilities/multiprocessing/multiprocessing.py', "                previous_run_data.append(\n                    MultiprocessingOutput(case_number=run_num, input_index=tuple(run_indicies), result=dict(case_result))\n                    )", "                previous_run_data.append((run_num, run_indicies, case_result))", rule='R18.5')
m('c18-failed-marker', 'C18', 'utilities/multiprocessing/multiprocessing.py', "        if not failed_run:\n            # Save key data to disk.", "        if True:\n            # Save key data to disk.", rule='R18.2')
m('c18-skip-guard', 'C18', 'utilities/multiprocessing/multiprocessing.py', "            if not os.path.isfile(success_file_path):\n                # No success file. Rerun.\n                continue\n            else:\n                # Success file found. Skip this run.\n                cases_to_skip.append(run_num)\n\n        with open(mp_log_path, 'a') as mp_file:", "            cases_to_skip.append(run_num)\n\n        with open(mp_log_path, 'a') as mp_file:", rule='R18')
m('c18-separator', 'C18', 'utilities/multiprocessing/multiprocessing.py', "input_name, input_data = line.split(':-:')", "input_name, input_data = line.split(':=:')", rule='R18.4')
# ---- C19
m('c19-decay', 'C19', 'radiogenics/radiogenic_models.py', "        gamma = LOG_HALF / halflife", "        gamma = LOG_HALF * halflife", rule='R19.1')
m('c19-nusselt', 'C19', 'cooling/cooling_models.py', "              (nusselt <= 2.) * 2.", "              (nusselt <= 2.) * 0.5", rule='R19.4')
m('twin-c19-nusselt-floor1', 'C19', 'cooling/cooling_models.py', "              (nusselt <= 2.) * 2.", "              (nusselt <= 2.) * 1.", expect='silent')   # floor at Nu = 1: convection == conduction there, every clause of C19 still holds
m('c19-visc-sign', 'C19', 'rheology/viscosity/viscosity_models.py', "temp_diff = (1. / temperature) - (1. / reference_temperature)", "temp_diff = (1. / reference_temperature) - (1. / temperature)", rule='R19.4')
m('c19-revert-henning', 'C19', 'rheology/partial_melt/melting_models.py', "        (melt_fraction_shape > crit_melt_frac_plus_width) * \\\n            liquid_shear", "        (melt_fraction_shape > crit_melt_frac_plus_width) * \\\n            liquid_viscosity", rule='R19')
m('c19-partition', 'C19', 'rheology/partial_melt/melting_models.py', "(melt_fraction_shape > 0.) * (melt_fraction_shape < crit_melt_frac) * \\\n            premelt_viscosity", "(melt_fraction_shape > 0.) * (melt_fraction_shape <= crit_melt_frac) * \\\n            premelt_viscosity", rule='R19.2')
m('c19-conduction', 'C19', 'cooling/cooling_models.py', "    boundary_layer_thickness = layer_thickness + shape\n\n    cooling_flux = thermal_conductivity * delta_temp / boundary_layer_thickness", "    boundary_layer_thickness = layer_thickness + shape\n\n    cooling_flux = thermal_conductivity / (delta_temp * boundary_layer_thickness)", rule='R19.4')
# ---- C20
m('c20-table', 'C20', 'utilities/math/special_x.pyx', "pre_calculated_doubles_ptr[  7] = 105.00", "pre_calculated_doubles_ptr[  7] = 106.00", rule='R20.1')
m('c20-cipow', 'C20', 'utilities/math/complex.pyx', "            if negative_pow:\n                return 1. / (a * a * a)", "            if negative_pow:\n                return 1. / (a * a)", rule='R20.4')
m('c20-clog-zero', 'C20', 'utilities/math/complex.pyx', "r_real = copysign(r_real, -1)", "r_real = copysign(r_real, 1)", rule='R20.2')
m('c20-csqrt-branch', 'C20', 'utilities/math/complex.pyx', "copysign(t, z_imag))", "copysign(t, z_real))", rule='R20.2')
m('c20-guard', 'C20', 'utilities/math/special_x.pyx', "    if n < 51:", "    if n < 52:", rule='R20.1')
m('c20-legacy', 'C20', 'utilities/math/special.py', "imag_part = np.sqrt((quad - z_r) / 2.)", "imag_part = np.sqrt((quad + z_r) / 2.)", rule='R20.5')

# ---- refactor twins: behaviour-preserving edits that must stay silent
m('twin-c12-commute', 'C12', 'tides/love1d.py', "rheology_factor = complex_compliance * shear_modulus", "rheology_factor = shear_modulus * complex_compliance", count='all', expect='silent')
m('twin-c01-rinv', 'C01', 'RadialSolver/derivatives/odes.pyx', "        r_inverse        = 1. / radius\n", "        r_inverse        = radius**(-1)\n", count='all', expect='silent')
m('twin-c11-beta', 'C11', 'dynamics/single_dissipation.py', "beta_invr = (mass_1 + mass_2) / (mass_1 * mass_2)", "beta_invr = 1. / mass_1 + 1. / mass_2", count='all', expect='silent')
m('twin-c08-digits', 'C08', 'tides/eccentricity_funcs/orderl2.py', "            -1: 0.25 * e2,", "            -1: 0.2500000000000000 * e2,", count='all', expect='silent')
m('twin-c14-square', 'C14', 'tides/potential/nsr_modes_med_eccen_gen_obliquity.py', "cos2_lat = cos_lat * cos_lat", "cos2_lat = cos_lat**2", expect='silent')
m('twin-c17-mass-order', 'C17', 'utilities/conversions/conversions.py', "semi_major_axis = (G * (host_mass + target_mass) / orbital_motion**2)**(1 / 3)", "semi_major_axis = (G * (target_mass + host_mass) / (orbital_motion * orbital_motion))**(1 / 3)", expect='silent')
m('twin-c04-r2inv', 'C04', 'RadialSolver/starting/kamata.pyx', "r2_inverse   = r_inverse * r_inverse", "r2_inverse   = 1. / (radius * radius)", count='all', expect='silent')
m('twin-c15-hoist', 'C15', 'tides/multilayer/stress_strain.py', "                    strain_trace_lame = lame * strain_trace", "                    strain_trace_lame = strain_trace * lame", expect='silent')
m('twin-c18-log-order', 'C18', 'utilities/multiprocessing/multiprocessing.py', "            with open(os.path.join(this_run_dir, 'mp_success.log'), 'w') as success_file:\n                success_file.write(success_text)\n\n            with open(mp_log_path, 'a') as mp_file:\n                mp_file.write(success_text)", "            with open(mp_log_path, 'a') as mp_file:\n                mp_file.write(success_text)\n\n            with open(os.path.join(this_run_dir, 'mp_success.log'), 'w') as success_file:\n                success_file.write(success_text)", expect='silent')
m('twin-c19-exp-merge', 'C19', 'rheology/partial_melt/melting_models.py', "premelt_viscosity * np.exp(-hn_visc_slope_1 * crit_melt_frac) * \\\n            np.exp(-hn_visc_falloff_slope * (melt_fraction - crit_melt_frac))", "premelt_viscosity * np.exp(-hn_visc_slope_1 * crit_melt_frac - hn_visc_falloff_slope * (melt_fraction - crit_melt_frac))", expect='silent')
m('twin-c10-order', 'C10', 'tides/modes/mode_manipulation.py', "dUdO_term = uni_multiplier * m * mode_sign", "dUdO_term = m * mode_sign * uni_multiplier", expect='silent')
m('twin-c07-maxwell-form', 'C07', 'rheology/models.pyx', "        return (viscosity * frequency_abs) / denom\n\n\ncdef class Voigt", "        return (frequency_abs * viscosity) / denom\n\n\ncdef class Voigt", expect='silent')
m('twin-c02-commute', 'C02', 'RadialSolver/interfaces/interfaces.pyx', "upper_layer_y_ptr[1] = -liquid_density * lower_layer_y_ptr[0]", "upper_layer_y_ptr[1] = -(lower_layer_y_ptr[0] * liquid_density)", count='all', expect='silent')
m('twin-c03-factor', 'C03', 'utilities/dimensions/nondimensional.pyx', "pascal_conversion  = mass_conversion / (length_conversion * second2_conversion)", "pascal_conversion  = (mass_conversion / length_conversion) / second2_conversion", count='all', expect='silent')
m('twin-c16-volume', 'C16', 'structures/physical.py', "self._volume = (4. / 3.) * np.pi * (self.radius**3 - self.radius_inner**3)", "self._volume = (4. * np.pi / 3.) * (self.radius**3 - self.radius_inner**3)", expect='silent')
m('twin-c13-flag-kw-order', 'C13', 'structures/world_types/tidal.py', "                eccentricity_change=eccentricity_changed,\n                obliquity_change=obliquity_changed,", "                obliquity_change=obliquity_changed,\n                eccentricity_change=eccentricity_changed,", expect='silent')
m('twin-c20-cipow', 'C20', 'utilities/math/complex.pyx', "                return 1. / (a * a * a)", "                return 1. / (a * (a * a))", expect='silent')
m('twin-c05-assoc', 'C05', 'tides/multilayer/heating.py', "portion_to_be_upgraded = (7. * eccentricity**2 * orbital_frequency)", "portion_to_be_upgraded = (orbital_frequency * 7. * eccentricity * eccentricity)", expect='silent')
m('twin-c09-assoc', 'C09', 'tides/inclination_funcs/orderl2.py', "(1, 0) : 9.0*sin_i_half**2*cos_i_half**6,", "(1, 0) : 9.0*cos_i_half**6*sin_i_half**2,", expect='silent')
m('twin-c06-rename', 'C06', 'RadialSolver/boundaries/boundaries.pyx', "cdef int[10] lapack_ipiv", "cdef int[12] lapack_ipiv", expect='silent')
# ---- added after the seeded-change round (sub-agent changes and the refactor twins they suggested)
m('c18-reload-unmarked', 'C18', 'utilities/multiprocessing/multiprocessing.py', "                # Call the function\n                result = study_function(this_run_dir, *args, **kwargs)\n            except Exception as e:", "                if os.path.isfile(os.path.join(this_run_dir, 'mp_results.npz')):\n                    result = dict(np.load(os.path.join(this_run_dir, 'mp_results.npz')))\n                else:\n                    result = study_function(this_run_dir, *args, **kwargs)\n            except Exception as e:", rule='R18.7')
m('twin-c18-hoist-path', 'C18', 'utilities/multiprocessing/multiprocessing.py', "        failed_run = False\n        if avoid_crashes:", "        results_path = os.path.join(this_run_dir, 'mp_results.npz')\n        failed_run = False\n        if avoid_crashes:", expect='silent')
m('twin-c18-hoist-path2', 'C18', 'utilities/multiprocessing/multiprocessing.py', "            np.savez(os.path.join(this_run_dir, f'mp_results.npz'), **result)", "            results_path = os.path.join(this_run_dir, 'mp_results.npz')\n            np.savez(results_path, **result)", expect='silent')
m('c20-legacy-imag-axis', 'C20', 'utilities/math/special.py', "        z_sqrt = real_part + \\\n                 (z_i != 0.) * imag_part", "        z_sqrt = (z_r != 0.) * real_part + \\\n                 (z_i != 0.) * imag_part", rule='R20.5')
m('c20-legacy-neg-axis', 'C20', 'utilities/math/special.py', "                 (z_i == 0.) * imag_part * 1.0j", "                 (z_i == 0.) * imag_part * -1.0j", rule='R20.5')
m('twin-c20-legacy-half', 'C20', 'utilities/math/special.py', "real_part = np.sqrt((quad + z_r) / 2.)", "real_part = np.sqrt(0.5 * (z_r + quad))", expect='silent')

m('c15-liquid-guard-real', 'C15', 'tides/multilayer/stress_strain.py', "        y4_shear   = y4 / shear\n", "        if np.real(shear) > 1.0e-40:\n            y4_shear = y4 / shear\n        else:\n            y4_shear = 0.j\n", rule='R15.2')
m('twin-c15-y4-guard', 'C15', 'tides/multilayer/stress_strain.py', "        y4_shear   = y4 / shear\n", "        if np.abs(y4) > 0.:\n            y4_shear = y4 / shear\n        else:\n            y4_shear = 0.j\n", expect='silent')
m('twin-c15-y4-guard-eq', 'C15', 'tides/multilayer/stress_strain.py', "        y4_shear   = y4 / shear\n", "        if y4 == 0.:\n            y4_shear = 0.j\n        else:\n            y4_shear = y4 / shear\n", expect='silent')
m('c19-visc-floor-wrong', 'C19', 'cooling/cooling_models.py', "layer_thickness**2 / viscosity\n", "layer_thickness**2 / ((viscosity > 1.) * viscosity + (viscosity <= 1.) * 50.)\n", rule='R19.4')
m('twin-c19-visc-floor', 'C19', 'cooling/cooling_models.py', "layer_thickness**2 / viscosity\n", "layer_thickness**2 / ((viscosity > 1.) * viscosity + (viscosity <= 1.) * 1.)\n", expect='silent')
m('c19-dT-cap-wrong', 'C19', 'cooling/cooling_models.py', "    cooling_flux = thermal_conductivity * delta_temp / boundary_layer_thickness\n\n    return cooling_flux, boundary_layer_thickness, rayleigh, nusselt", "    cooling_flux = thermal_conductivity * ((delta_temp < 2000.) * delta_temp + (delta_temp >= 2000.) * 200.) / boundary_layer_thickness\n\n    return cooling_flux, boundary_layer_thickness, rayleigh, nusselt", rule='R19.4')
m('c16-scale-stale-thickness', 'C16', 'structures/world_builder/world_builder.py', "        scaled_config['layers'][layer_name]['thickness'] = scaled_config['layers'][layer_name]['radius'] - \\\n                                                           scaled_config['layers'][layer_name]['radius_inner']\n", "", rule='R16.4')
m('twin-c16-scale-no-inner-key', 'C16', 'structures/world_builder/world_builder.py', "        scaled_config['layers'][layer_name]['radius_inner'] = prev_layer_radius\n\n        # Use this layer's upper radius as the next layer's lower radius\n        prev_layer_radius = scaled_config['layers'][layer_name]['radius']\n\n        # Update other items\n        scaled_config['layers'][layer_name]['thickness'] = scaled_config['layers'][layer_name]['radius'] - \\\n                                                           scaled_config['layers'][layer_name]['radius_inner']\n", "        scaled_config['layers'][layer_name]['thickness'] = scaled_config['layers'][layer_name]['radius'] - prev_layer_radius\n        prev_layer_radius = scaled_config['layers'][layer_name]['radius']\n", expect='silent')
