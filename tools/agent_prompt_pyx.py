import json,sys
pid=sys.argv[1]
p=json.load(open(f'/tmp/propstext/{pid}.json'))
print(f"""You are helping to test a verification tool for the open-source Python/Cython package TidalPy (tidal heating, orbital-spin evolution, viscoelastic Love numbers of layered planets). Your job: craft FOUR independent, realistic, subtle source changes ("seeded defects") to TidalPy's Cython sources (.pyx/.pxd) that would each BREAK the semantic property given below once the package is compiled, while still compiling and while the existing test-suite would still pass.

## Your workspace (use ONLY these; never touch /repo or /verif, do not read anything under /verif)
- Scratch git worktree of the repository: /tmp/wt_r2_{pid}  (a checkout of the pinned commit). Work ONLY in this tree.
- IMPORTANT: there is NO Cython compiler in this sandbox, so .pyx edits cannot be built or run here; the compiled .so files in the tree are from the ORIGINAL sources. You therefore cannot demonstrate the defect dynamically. Instead you must (a) make sure each edit is syntactically valid Cython that would compile (same types, declared variables, no Python objects in nogil blocks, etc.), and (b) argue carefully, from the mathematics/physics and from reading the code and the tests under Tests/, why the property breaks and why the existing tests (read them: Tests/Test_RadialSolver, Tests/Test_Utilities, Tests/Test_Old/...) would still pass. You MAY use /venv/bin/python with numpy/scipy/sympy/mpmath to check your mathematics numerically (e.g. transliterate a small kernel to Python to confirm that the changed formula gives a different Love number / violates the ODE / breaks continuity), and you may run the ORIGINAL compiled code to see magnitudes.
- No network.
- Output directory: /tmp/seed_r2_{pid}/ -- write there: patch_1.diff ... patch_4.diff, each with its own meta_1.json ... meta_4.json.

## The property to break
```json
{json.dumps(p, indent=1)}
```

## Requirements for each change
1. Plausible as something a real developer could do (refactor, optimisation, clean-up, 'fix', copy/paste slip, off-by-one, wrong slot/index, swapped argument, sign, missing factor, wrong branch condition, missing restore on an exit path...). Small-to-moderate. The four changes should be of DIFFERENT kinds and touch different functions/files among the property's anchors.
2. It should need something SPECIFIC to manifest where possible: a particular layer-type combination, degree l > 2, a particular solution type, a particular assumption flag (static/dynamic, compressible/incompressible), a particular starting-condition family, an exceptional exit path, a small-argument branch, etc. Default use (what the tests exercise: look at them) should keep giving unchanged answers if you can manage it; at minimum the existing tests must keep passing (most only check success flags, shapes and types).
3. It must genuinely violate the property as stated. Say which clause fails and for which inputs.
4. Each patch must apply on its own to a clean checkout (`git apply`); produce each with `git diff` after resetting the tree (`git checkout -- .`) between changes.

## Deliverables in /tmp/seed_r2_{pid}/
- patch_k.diff for k=1..4
- meta_k.json : {{"property": "{pid}", "files_changed": [...], "what_changed": "...", "why_it_breaks": "... (clause, mathematics)", "needs_to_manifest": "...", "why_tests_still_pass": "...", "numerical_check": "what you computed to convince yourself, if anything"}}
Leave the worktree clean (`git checkout -- .`) when done. In your final reply give a short summary (3 lines per change).""")
