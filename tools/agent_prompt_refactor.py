import json,sys
pid=sys.argv[1]
p=json.load(open(f'/tmp/propstext/{pid}.json'))
print(f"""You are helping to test a verification tool for the open-source Python/Cython package TidalPy. The tool must stay SILENT on code changes that preserve behaviour. Your job: produce FIVE independent, realistic, BEHAVIOUR-PRESERVING refactorings of the code that implements the semantic property given below - the kind of clean-up a maintainer would merge: rename local variables or private helpers, extract or inline a helper function, hoist common sub-expressions, reorder independent statements, rewrite `x**2` as `x*x` (or back), rewrite a loop as a comprehension (or back), replace a chain of if/elif by a dict lookup, change a mask-multiplication into np.where where exactly equivalent, reformat long expressions, add type hints/docstrings/comments, split a long function, introduce named constants, algebraically equivalent rearrangements of formulas (same real-number value; floating-point rounding differences at the 1e-15 level are acceptable), retype a numeric literal with equivalent digits, etc.

## Your workspace (use ONLY these; never touch /repo or /verif, do not read anything under /verif)
- Scratch git worktree of the repository: /tmp/wt_rf_{pid}  (checkout of the pinned commit with the compiled .so extension modules copied in). Work ONLY in this tree.
- Python with all deps: /venv/bin/python ; run code against your tree with `cd /tmp/wt_rf_{pid} && PYTHONPATH=/tmp/wt_rf_{pid} PYTHONDONTWRITEBYTECODE=1 /venv/bin/python ...`.
- There is NO Cython compiler: .pyx edits never reach the running code. You MAY still refactor .pyx/.pxd files (the tool reads sources), but then be extra careful that the edit is valid Cython and exactly behaviour preserving, since you cannot test it. Prefer .py files for at least 3 of the 5 refactorings when the property's anchors include .py files.
- No network. The machine is heavily loaded: run only the few test files that exercise what you touched (`/venv/bin/python -m pytest -q -p no:cacheprovider --timeout=900 -n 2 <test paths>`), not the whole suite.
- Output directory: /tmp/seed_rf_{pid}/ -- write there patch_1.diff ... patch_5.diff and meta_1.json ... meta_5.json.

## The property whose implementation you refactor
```json
{json.dumps(p, indent=1)}
```

## Requirements
1. Each refactoring touches code in the property's anchor files (the functions/classes that implement the mechanism named in the property) and must be non-trivial (not only whitespace/comments): the five should be of DIFFERENT kinds and of increasing ambition (from local renames up to restructuring a function or extracting helpers).
2. Behaviour must be exactly preserved for every input (public API, return values, side effects, exceptions). Convince yourself: for .py changes run the relevant existing tests AND a quick before/after comparison script of your own on a spread of inputs (compare outputs of the original and the refactored function numerically).
3. Each patch must apply on its own to a clean checkout (`git apply`): produce with `git diff` and reset the tree (`git checkout -- .`) between refactorings.

## Deliverables in /tmp/seed_rf_{pid}/
- patch_k.diff, meta_k.json : {{"property": "{pid}", "files_changed": [...], "kind": "...", "what_changed": "...", "why_behaviour_preserved": "...", "checked_how": "tests run / comparison performed, with results"}}
Leave the worktree clean when done. Final reply: 2 lines per refactoring.""")
