import json,sys
pid=sys.argv[1]; avoid=sys.argv[2] if len(sys.argv)>2 else ''
p=json.load(open(f'/tmp/propstext/{pid}.json'))
print(f"""You are helping to test a verification tool for the open-source Python package TidalPy (tidal heating, orbital-spin evolution, Love numbers). Your job: craft ONE realistic, subtle code change ("seeded defect") to TidalPy that BREAKS the semantic property given below, while the package still imports, and the existing test-suite still passes. Then write a demonstration program that passes on the original code and fails on the changed code.

## Your workspace (use ONLY these; never touch /repo or /verif, do not read anything under /verif)
- Scratch git worktree of the repository: /tmp/wt_r2_{pid}  (a checkout of the pinned commit, with the compiled .so extension modules already copied in). Work ONLY in this tree.
- Python interpreter with all deps: /venv/bin/python . To run code against your tree: `cd /tmp/wt_r2_{pid} && PYTHONPATH=/tmp/wt_r2_{pid} PYTHONDONTWRITEBYTECODE=1 /venv/bin/python yourscript.py` (verify `TidalPy.__file__` points into your tree).
- There is NO Cython compiler: edits to .pyx/.pxd files never reach the running code, so your change MUST be in .py files (numba-jitted functions are fine: numba recompiles from source; set NUMBA_DISABLE_JIT only if you need to).
- No network.
- Output directory: /tmp/seed_r2_{pid}/  -- write there: patch.diff, demo.py, meta.json (see below).

## The property to break
```json
{json.dumps(p, indent=1)}
```

## Requirements for the change
1. It must be a change a real developer could plausibly make (refactor, optimisation, clean-up, feature tweak, copy/paste slip) - not sabotage that looks like sabotage. Keep it small-to-moderate.
2. It must need something SPECIFIC to manifest: an unusual input, a particular multi-step sequence of operations, a particular configuration, two cooperating sites that each look fine alone, a boundary/region of parameter space, a rarely used code path. Ordinary default use must keep giving the right answers, so that it would not be exposed at once. Prefer semantic subtlety over mere obscurity.
3. The package must still import and the existing test-suite must still pass with the change. Run at least the test files that exercise the files you touched, with: `cd /tmp/wt_r2_{pid} && PYTHONPATH=/tmp/wt_r2_{pid} /venv/bin/python -m pytest -q -p no:cacheprovider --timeout=900 -n 4 <test paths>` (tests live under Tests/; the full suite takes ~10 min with -n 4: run the full suite once at the end if you can; one test needing network, Tests/Test_Utilities/Test_Exoplanets, fails regardless - ignore it).
4. The change must genuinely violate the property as stated (not some other expectation). Explain precisely which clause of the property fails and for which inputs.
{('5. To keep the set of test changes diverse, do NOT use this idea, which has already been used: ' + avoid) if avoid else ''}

## Demonstration
Write /tmp/seed_r2_{pid}/demo.py: a self-contained program (it may import TidalPy, numpy, scipy, mpmath/sympy if available in /venv) that checks the property on inputs including the ones that manifest your change, using an INDEPENDENT reference (the mathematical definition, a conservation law, a fresh object, etc. - not numbers stored from the original code if avoidable). It must print PASS and exit 0 on the original tree, and print FAIL (with the failing cases) and exit 1 on the changed tree. It will be run as `cd <tree> && PYTHONPATH=<tree> /venv/bin/python seed_out/demo.py` where it has been copied to <tree>/seed_out/demo.py - so make it locate the tree via PYTHONPATH / its parent directory, never via a hard-coded /tmp path.
Verify both outcomes yourself: run the demo on the unmodified tree (use `git diff > /tmp/<your output dir>/patch.diff; git checkout -- .` and later `git apply` it again; NEVER use `git stash`: the stash is shared by all worktrees of the repository and other people work in sibling worktrees) and on the changed tree.

## Deliverables in /tmp/seed_r2_{pid}/
- patch.diff : output of `git -C /tmp/wt_r2_{pid} diff` (must apply with `git apply` to a clean checkout of the same commit; only tracked source files, no new untracked files unless included via `git add -N` so they show in the diff).
- demo.py
- meta.json : {{"property": "{pid}", "files_changed": [...], "what_changed": "...", "needs_to_manifest": "...", "tests_run": "... with results", "demo_result_original": "...", "demo_result_changed": "..."}}
Leave the worktree in the CHANGED state when done. In your final reply give a 10-line summary: what you changed, what it needs to manifest, test results, demo results.""")
