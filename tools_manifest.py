#!/usr/bin/env python3
"""Regenerate MANIFEST.json from vstatic/props/*: every property with a checker module is claimed;
every other is listed under not_applicable with its reason from NOT_APPLICABLE below."""
import importlib, json, os, sys
sys.path.insert(0, os.path.dirname(os.path.abspath(__file__)))
ALL = [f'C{i:02d}' for i in range(1, 21)]
NOT_APPLICABLE = {}
checks = []; na = []
for pid in ALL:
    path = f'vstatic/props/{pid.lower()}.py'
    if os.path.exists(path):
        m = importlib.import_module(f'vstatic.props.{pid.lower()}')
        checks.append({
            'property_id': pid,
            'quick_cmd': f'./check {pid} --tier quick',
            'thorough_cmd': f'./check {pid} --tier thorough',
            'evidence_file': f'/verif/evidence/{pid}.json',
            'replay_cmd_template': './check ' + pid + ' --replay {path}',
            'engine': 'vstatic',
            'level_claimed': {'category': m.LEVEL, 'text': m.LEVEL_TEXT, 'design_ref': f'DESIGN.md §4 {pid}'},
            'level_note': m.LEVEL_NOTE,
            'technique': m.TECHNIQUE,
        })
    else:
        na.append({'property_id': pid, 'reason': NOT_APPLICABLE.get(pid, 'checker not built yet (static-analysis design in DESIGN.md §4); not claimed until its check exists')})
man = {
    'version': 1,
    'setup_cmd': 'true',
    'hooks': {'guard': 'TIDALPY_VERIF', 'enable': 'none needed: the checks read source only; no instrumentation is compiled in',
              'baseline_off_cmd': 'cd /repo && /venv/bin/python -m pytest -ra -q -p no:cacheprovider --timeout=900 --continue-on-collection-errors',
              'source_commits': [], 'add_only': True},
    'engines': [{'name': 'vstatic', 'path': '/verif/vstatic', 'serves_properties': [c['property_id'] for c in checks],
                 'kind_free_text': 'static analysis: ast + own Cython-subset front-end, statement CFG, expression-DAG abstract interpreter with polynomial identity testing, exact-rational table oracles, finite abstract domains'}],
    'checks': checks,
    'not_applicable': na,
    'notes': 'All checks read /repo source text only (no import, no execution of repo code). Exit 0 pass / 1 VIOLATION / 2 ANALYSIS-ERROR.',
}
json.dump(man, open('MANIFEST.json', 'w'), indent=1)
print('claimed', [c['property_id'] for c in checks])
